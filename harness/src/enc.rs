//! Hand-written Base58Check and Bech32/Bech32m (BIP173/BIP350) encoders and decoders.
use crate::hashes::sha256d;

const B58: &[u8; 58] = b"123456789ABCDEFGHJKLMNPQRSTUVWXYZabcdefghijkmnopqrstuvwxyz";

pub fn base58_encode(data: &[u8]) -> String {
    let zeros = data.iter().take_while(|b| **b == 0).count();
    // big-number base conversion
    let mut digits: Vec<u8> = Vec::with_capacity(data.len() * 138 / 100 + 1);
    for &byte in data {
        let mut carry = byte as u32;
        for d in digits.iter_mut() {
            carry += (*d as u32) << 8;
            *d = (carry % 58) as u8;
            carry /= 58;
        }
        while carry > 0 {
            digits.push((carry % 58) as u8);
            carry /= 58;
        }
    }
    let mut s = String::with_capacity(zeros + digits.len());
    for _ in 0..zeros {
        s.push('1');
    }
    for d in digits.iter().rev() {
        s.push(B58[*d as usize] as char);
    }
    s
}

pub fn base58_decode(s: &str) -> Option<Vec<u8>> {
    let zeros = s.bytes().take_while(|b| *b == b'1').count();
    let mut bytes: Vec<u8> = Vec::with_capacity(s.len());
    for c in s.bytes() {
        let v = B58.iter().position(|x| *x == c)? as u32;
        let mut carry = v;
        for b in bytes.iter_mut() {
            carry += (*b as u32) * 58;
            *b = (carry & 0xff) as u8;
            carry >>= 8;
        }
        while carry > 0 {
            bytes.push((carry & 0xff) as u8);
            carry >>= 8;
        }
    }
    // strip the leading zeros that came from the big number (little-endian: trailing)
    while bytes.last() == Some(&0) {
        bytes.pop();
    }
    let mut out = vec![0u8; zeros];
    out.extend(bytes.iter().rev());
    Some(out)
}

/// Base58Check(version || payload)
pub fn base58check(version: u8, payload: &[u8]) -> String {
    let mut v = Vec::with_capacity(payload.len() + 5);
    v.push(version);
    v.extend_from_slice(payload);
    let c = sha256d(&v);
    v.extend_from_slice(&c[..4]);
    base58_encode(&v)
}

/// Returns (version, payload) if the checksum is valid.
pub fn base58check_decode(s: &str) -> Option<(u8, Vec<u8>)> {
    let v = base58_decode(s)?;
    if v.len() < 5 {
        return None;
    }
    let (body, chk) = v.split_at(v.len() - 4);
    if sha256d(body)[..4] != *chk {
        return None;
    }
    Some((body[0], body[1..].to_vec()))
}

const CHARSET: &[u8; 32] = b"qpzry9x8gf2tvdw0s3jn54khce6mua7l";
const BECH32_CONST: u32 = 1;
const BECH32M_CONST: u32 = 0x2bc830a3;

fn polymod(values: &[u8]) -> u32 {
    const GEN: [u32; 5] = [0x3b6a57b2, 0x26508e6d, 0x1ea119fa, 0x3d4233dd, 0x2a1462b3];
    let mut chk: u32 = 1;
    for v in values {
        let b = chk >> 25;
        chk = ((chk & 0x1ffffff) << 5) ^ (*v as u32);
        for (i, g) in GEN.iter().enumerate() {
            if (b >> i) & 1 == 1 {
                chk ^= g;
            }
        }
    }
    chk
}

fn hrp_expand(hrp: &str) -> Vec<u8> {
    let mut v: Vec<u8> = hrp.bytes().map(|c| c >> 5).collect();
    v.push(0);
    v.extend(hrp.bytes().map(|c| c & 31));
    v
}

fn convert_bits(data: &[u8], from: u32, to: u32, pad: bool) -> Option<Vec<u8>> {
    let mut acc: u32 = 0;
    let mut bits: u32 = 0;
    let mut ret = Vec::new();
    let maxv: u32 = (1 << to) - 1;
    for v in data {
        let v = *v as u32;
        if v >> from != 0 {
            return None;
        }
        acc = (acc << from) | v;
        bits += from;
        while bits >= to {
            bits -= to;
            ret.push(((acc >> bits) & maxv) as u8);
        }
    }
    if pad {
        if bits > 0 {
            ret.push(((acc << (to - bits)) & maxv) as u8);
        }
    } else if bits >= from || ((acc << (to - bits)) & maxv) != 0 {
        return None;
    }
    Some(ret)
}

/// Segwit address for witness version `ver` (0..=16) and program; Bech32 for v0, Bech32m otherwise.
pub fn segwit_addr(hrp: &str, ver: u8, program: &[u8]) -> String {
    let mut data = vec![ver];
    data.extend(convert_bits(program, 8, 5, true).unwrap());
    let c = if ver == 0 { BECH32_CONST } else { BECH32M_CONST };
    let mut values = hrp_expand(hrp);
    values.extend(&data);
    values.extend([0u8; 6]);
    let pm = polymod(&values) ^ c;
    let mut s = String::from(hrp);
    s.push('1');
    for d in &data {
        s.push(CHARSET[*d as usize] as char);
    }
    for i in 0..6 {
        s.push(CHARSET[((pm >> (5 * (5 - i))) & 31) as usize] as char);
    }
    s
}

/// Decodes a segwit address: returns (hrp, witness version, program) if the checksum is valid for
/// the encoding the version demands (BIP350).
pub fn segwit_decode(addr: &str) -> Option<(String, u8, Vec<u8>)> {
    if addr.bytes().any(|c| c.is_ascii_uppercase()) && addr.bytes().any(|c| c.is_ascii_lowercase())
    {
        return None;
    }
    let addr = addr.to_ascii_lowercase();
    let pos = addr.rfind('1')?;
    if pos < 1 || pos + 7 > addr.len() {
        return None;
    }
    let hrp = &addr[..pos];
    let mut data = Vec::new();
    for c in addr[pos + 1..].bytes() {
        data.push(CHARSET.iter().position(|x| *x == c)? as u8);
    }
    let mut values = hrp_expand(hrp);
    values.extend(&data);
    let pm = polymod(&values);
    let ver = data[0];
    if ver > 16 {
        return None;
    }
    let want = if ver == 0 { BECH32_CONST } else { BECH32M_CONST };
    if pm != want {
        return None;
    }
    let prog = convert_bits(&data[1..data.len() - 6], 5, 8, false)?;
    Some((hrp.to_string(), ver, prog))
}

pub fn self_test() {
    // Base58Check: genesis coinbase key hash -> 1A1zP1eP5QGefi2DMPTfTL5SLmv7DivfNa
    let h160 = crate::hashes::unhex("62e907b15cbf27d5425399ebf6f0fb50ebb88f18");
    assert_eq!(base58check(0, &h160), "1A1zP1eP5QGefi2DMPTfTL5SLmv7DivfNa");
    assert_eq!(
        base58check_decode("1A1zP1eP5QGefi2DMPTfTL5SLmv7DivfNa"),
        Some((0u8, h160.clone()))
    );
    assert_eq!(base58check_decode("1A1zP1eP5QGefi2DMPTfTL5SLmv7DivfNb"), None);
    // P2SH from the repository's own test vector hash
    let sh = crate::hashes::unhex("e9c3dd0c07aac76179ebc76a6c78d4d67c6c160a");
    assert_eq!(base58check(5, &sh), "3P14159f73E4gFr7JterCCQh9QjiTjiZrG");
    // BIP173 / BIP350 vectors
    let p = crate::hashes::unhex("751e76e8199196d454941c45d1b3a323f1433bd6");
    assert_eq!(segwit_addr("bc", 0, &p), "bc1qw508d6qejxtdg4y5r3zarvary0c5xw7kv8f3t4");
    assert_eq!(segwit_addr("tb", 0, &p), "tb1qw508d6qejxtdg4y5r3zarvary0c5xw7kxpjzsx");
    let p32 = crate::hashes::unhex("1863143c14c5166804bd19203356da136c985678cd4d27a1b8c6329604903262");
    assert_eq!(
        segwit_addr("bc", 0, &p32),
        "bc1qrp33g0q5c5txsp9arysrx4k6zdkfs4nce4xj0gdcccefvpysxf3qccfmv3"
    );
    let tr = crate::hashes::unhex("79be667ef9dcbbac55a06295ce870b07029bfcdb2dce28d959f2815b16f81798");
    assert_eq!(
        segwit_addr("bc", 1, &tr),
        "bc1p0xlxvlhemja6c4dqv22uapctqupfhlxm9h8z3k2e72q4k9hcz7vqzk5jj0"
    );
    let p40 = crate::hashes::unhex(
        "751e76e8199196d454941c45d1b3a323f1433bd6751e76e8199196d454941c45d1b3a323f1433bd6",
    );
    assert_eq!(
        segwit_addr("bc", 1, &p40),
        "bc1pw508d6qejxtdg4y5r3zarvary0c5xw7kw508d6qejxtdg4y5r3zarvary0c5xw7kt5nd6y"
    );
    assert_eq!(
        segwit_decode("bc1pw508d6qejxtdg4y5r3zarvary0c5xw7kw508d6qejxtdg4y5r3zarvary0c5xw7kt5nd6y"),
        Some(("bc".to_string(), 1, p40))
    );
    assert_eq!(segwit_addr("bc", 16, &[0x75, 0x1e]), "bc1sw50qgdz25j");
    assert_eq!(
        segwit_decode("bc1qw508d6qejxtdg4y5r3zarvary0c5xw7kv8f3t4"),
        Some(("bc".to_string(), 0, p))
    );
    // v0 with bech32m checksum must be rejected
    assert_eq!(segwit_decode("bc1qw508d6qejxtdg4y5r3zarvary0c5xw7kemeawh"), None);
}
