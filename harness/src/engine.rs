//! Sharded, seeded proptest driver with evidence accounting, shrinking and replay files.
use crate::gen::{Tier, BS};
use crate::hashes::fnv64;
use proptest::test_runner::{Config, RngSeed, TestCaseError, TestError, TestRunner};
use serde::Serialize;
use serde_json::{json, Value};
use std::collections::{BTreeMap, HashSet};
use std::sync::atomic::{AtomicBool, AtomicU64, Ordering};
use std::sync::Mutex;
use std::time::Instant;

#[derive(Clone, Debug, Default)]
pub struct Pass {
    pub nontrivial: bool,
    /// descriptor hash for distinctness counting
    pub key: u64,
    pub classes: Vec<String>,
    /// known findings observed on this case (signature strings)
    pub known: Vec<String>,
    /// extra evaluations performed inside this case (e.g. scripts inside a chain, runs of the tool)
    pub sub_evals: u64,
    /// optional short description used as evidence sample
    pub sample: Option<Value>,
    /// further non-trivial item keys inside this case (e.g. one per script of a batch)
    pub extra_keys: Vec<u64>,
}

#[derive(Clone, Debug)]
pub enum Verdict {
    Pass(Pass),
    Fail(String),
    Infra(String),
}

pub struct RunCfg {
    pub property: String,
    pub engine: String,
    pub tier: Tier,
    pub seed: u64,
    pub shards: usize,
    pub replay_dir: std::path::PathBuf,
}

#[derive(Default)]
pub struct Acc {
    pub evaluations: u64,
    pub sub_evals: u64,
    pub nontrivial: HashSet<u64>,
    pub classes: BTreeMap<String, u64>,
    pub known: BTreeMap<String, u64>,
    pub samples: Vec<Value>,
    pub violations: Vec<(String, String)>,
    pub parts: Vec<Value>,
    pub infra: Option<String>,
    pub exhaustive_parts: Vec<String>,
}

pub struct Engine {
    pub cfg: RunCfg,
    pub acc: Mutex<Acc>,
    pub start: Instant,
    /// in-process engines: a single case that does not return within this many seconds is reported
    /// (the stuck thread cannot be stopped, so the hook writes the results and exits the process)
    pub hang_limit_s: Option<u64>,
    pub on_hang: Mutex<Option<Box<dyn Fn(&Engine) + Send + Sync>>>,
}

pub static INFRA: AtomicBool = AtomicBool::new(false);

impl Engine {
    pub fn new(cfg: RunCfg) -> Engine {
        Engine { cfg, acc: Mutex::new(Acc::default()), start: Instant::now(), hang_limit_s: None, on_hang: Mutex::new(None) }
    }

    pub fn failed(&self) -> bool {
        !self.acc.lock().unwrap().violations.is_empty()
    }

    fn absorb(&self, p: &Pass, sample_fallback: impl FnOnce() -> Value) {
        let mut a = self.acc.lock().unwrap();
        a.evaluations += 1;
        a.sub_evals += p.sub_evals;
        for c in &p.classes {
            *a.classes.entry(c.clone()).or_insert(0) += 1;
        }
        for k in &p.known {
            *a.known.entry(k.clone()).or_insert(0) += 1;
        }
        for k in &p.extra_keys {
            a.nontrivial.insert(*k);
        }
        if a.samples.is_empty() && !p.nontrivial {
            // always show at least one real case, even if no non-trivial one has turned up yet
            let s = p.sample.clone().unwrap_or_else(|| Value::Null);
            if !s.is_null() {
                a.samples.push(s);
            }
        }
        if p.nontrivial {
            let new = a.nontrivial.insert(p.key);
            if new && a.samples.len() < 5 && (a.nontrivial.len() % 37 == 1 || a.samples.is_empty()) {
                let s = p.sample.clone().unwrap_or_else(sample_fallback);
                a.samples.push(s);
            }
        }
    }

    /// Random exploration of one part: `cases` cases split over the shards.
    pub fn explore<C, S, F>(&self, part: &str, cases: u32, mk_strat: S, check: F)
    where
        C: std::fmt::Debug + Clone + Serialize + Send + 'static,
        S: Fn() -> BS<C> + Sync,
        F: Fn(&C) -> Verdict + Sync,
    {
        if self.failed() || INFRA.load(Ordering::SeqCst) {
            return;
        }
        let shards = self.cfg.shards.max(1).min(cases.max(1) as usize);
        let per = (cases as usize + shards - 1) / shards;
        let t0 = Instant::now();
        let results: Mutex<Vec<(usize, String, C)>> = Mutex::new(Vec::new());
        let evals = AtomicU64::new(0);
        // per shard: the case in progress and when it started
        let in_progress: Vec<Mutex<Option<(Instant, C)>>> = (0..shards).map(|_| Mutex::new(None)).collect();
        let done = AtomicBool::new(false);
        std::thread::scope(|sc| {
            if let Some(limit) = self.hang_limit_s {
                let in_progress = &in_progress;
                let done = &done;
                let part = part.to_string();
                sc.spawn(move || {
                    while !done.load(Ordering::SeqCst) {
                        std::thread::sleep(std::time::Duration::from_millis(500));
                        for slot in in_progress.iter() {
                            let stuck = { slot.lock().unwrap().as_ref().filter(|(t, _)| t.elapsed().as_secs() >= limit).map(|(_, c)| c.clone()) };
                            if let Some(c) = stuck {
                                self.record_violation(&part, &format!("the check of this case did not return within {} s (evaluation does not terminate?)", limit), serde_json::to_value(&c).unwrap_or(Value::Null));
                                if let Some(h) = self.on_hang.lock().unwrap().as_ref() {
                                    h(self);
                                }
                                std::process::exit(1);
                            }
                        }
                    }
                });
            }
            let workers: Vec<_> = (0..shards).map(|shard| {
                let mk_strat = &mk_strat;
                let check = &check;
                let results = &results;
                let evals = &evals;
                let part = part.to_string();
                let slot = &in_progress[shard];
                sc.spawn(move || {
                    let seedsrc = format!("{}|{}|{}|{}", self.cfg.seed, self.cfg.property, part, shard);
                    let config = Config {
                        cases: per as u32,
                        failure_persistence: None,
                        rng_seed: RngSeed::Fixed(fnv64(seedsrc.as_bytes())),
                        max_shrink_iters: 200,
                        max_shrink_time: 90_000,
                        max_global_rejects: 100_000,
                        verbose: 0,
                        ..Config::default()
                    };
                    let strat = mk_strat();
                    let mut runner = TestRunner::new(config);
                    let failed_once = AtomicBool::new(false);
                    let r = runner.run(&strat, |c| {
                        if INFRA.load(Ordering::SeqCst) {
                            return Ok(());
                        }
                        if self.hang_limit_s.is_some() {
                            *slot.lock().unwrap() = Some((Instant::now(), c.clone()));
                        }
                        let verdict = check(&c);
                        if self.hang_limit_s.is_some() {
                            *slot.lock().unwrap() = None;
                        }
                        match verdict {
                            Verdict::Pass(p) => {
                                if !failed_once.load(Ordering::SeqCst) {
                                    evals.fetch_add(1, Ordering::SeqCst);
                                    self.absorb(&p, || serde_json::to_value(&c).unwrap_or(Value::Null));
                                }
                                Ok(())
                            }
                            Verdict::Fail(m) => {
                                failed_once.store(true, Ordering::SeqCst);
                                Err(TestCaseError::fail(m))
                            }
                            Verdict::Infra(m) => {
                                INFRA.store(true, Ordering::SeqCst);
                                let mut a = self.acc.lock().unwrap();
                                if a.infra.is_none() {
                                    a.infra = Some(m.clone());
                                    // keep the case for diagnosis (not a replay of a violation)
                                    let doc = json!({"property": self.cfg.property, "engine": self.cfg.engine, "part": part, "seed": self.cfg.seed, "message": m, "case": serde_json::to_value(&c).unwrap_or(Value::Null)});
                                    let _ = std::fs::create_dir_all("/verif/.cache/out");
                                    let _ = std::fs::write(format!("/verif/.cache/out/infra-{}.json", self.cfg.property), serde_json::to_string(&doc).unwrap_or_default());
                                }
                                Ok(())
                            }
                        }
                    });
                    if let Err(TestError::Fail(reason, value)) = r {
                        results.lock().unwrap().push((shard, reason.message().to_string(), value));
                    } else if let Err(TestError::Abort(reason)) = r {
                        INFRA.store(true, Ordering::SeqCst);
                        let mut a = self.acc.lock().unwrap();
                        if a.infra.is_none() {
                            a.infra = Some(format!("proptest aborted: {}", reason.message()));
                        }
                    }
                })
            }).collect();
            for w in workers {
                let _ = w.join();
            }
            done.store(true, Ordering::SeqCst);
        });
        let mut res = results.into_inner().unwrap();
        res.sort_by_key(|r| r.0);
        {
            let mut a = self.acc.lock().unwrap();
            a.parts.push(json!({"part": part, "requested_cases": cases, "executed": evals.load(Ordering::SeqCst), "wall_s": t0.elapsed().as_secs_f64()}));
        }
        if let Some((_, msg, value)) = res.into_iter().next() {
            self.record_violation(part, &msg, serde_json::to_value(&value).unwrap_or(Value::Null));
        }
    }

    /// Exhaustive enumeration of a finite list of cases (parallel over shards; no shrinking - the
    /// first failing case in list order is reported).
    pub fn enumerate<C, F>(&self, part: &str, cases: Vec<C>, check: F)
    where
        C: std::fmt::Debug + Clone + Serialize + Send + Sync + 'static,
        F: Fn(&C) -> Verdict + Sync,
    {
        if self.failed() || INFRA.load(Ordering::SeqCst) {
            return;
        }
        let t0 = Instant::now();
        let n = cases.len();
        let next = AtomicU64::new(0);
        let fails: Mutex<Vec<(usize, String)>> = Mutex::new(Vec::new());
        let shards = self.cfg.shards.max(1);
        std::thread::scope(|sc| {
            for _ in 0..shards {
                sc.spawn(|| loop {
                    let i = next.fetch_add(1, Ordering::SeqCst) as usize;
                    if i >= n || INFRA.load(Ordering::SeqCst) {
                        break;
                    }
                    match check(&cases[i]) {
                        Verdict::Pass(p) => self.absorb(&p, || serde_json::to_value(&cases[i]).unwrap_or(Value::Null)),
                        Verdict::Fail(m) => fails.lock().unwrap().push((i, m)),
                        Verdict::Infra(m) => {
                            INFRA.store(true, Ordering::SeqCst);
                            let mut a = self.acc.lock().unwrap();
                            if a.infra.is_none() {
                                a.infra = Some(m);
                            }
                        }
                    }
                });
            }
        });
        let mut f = fails.into_inner().unwrap();
        f.sort_by_key(|x| x.0);
        {
            let mut a = self.acc.lock().unwrap();
            a.parts.push(json!({"part": part, "enumerated": n, "exhaustive": true, "wall_s": t0.elapsed().as_secs_f64()}));
            a.exhaustive_parts.push(part.to_string());
        }
        if let Some((i, m)) = f.into_iter().next() {
            self.record_violation(part, &m, serde_json::to_value(&cases[i]).unwrap_or(Value::Null));
        }
    }

    pub fn record_violation(&self, part: &str, msg: &str, case: Value) {
        let doc = json!({"property": self.cfg.property, "engine": self.cfg.engine, "part": part, "seed": self.cfg.seed, "message": msg, "case": case});
        let text = serde_json::to_string_pretty(&doc).unwrap();
        let dir = self.cfg.replay_dir.join(&self.cfg.property);
        let _ = std::fs::create_dir_all(&dir);
        let name = format!("{}-{:016x}.json", part.replace('/', "_"), fnv64(text.as_bytes()));
        let path = dir.join(name);
        let _ = std::fs::write(&path, text);
        let mut a = self.acc.lock().unwrap();
        a.violations.push((path.display().to_string(), msg.to_string()));
    }

    /// Writes this engine's partial evidence and prints the result lines. Returns the exit code.
    pub fn finish(&self, out: &std::path::Path, rule: &str, assumptions: &[&str], level: &str) -> i32 {
        let a = self.acc.lock().unwrap();
        let doc = json!({
            "property_id": self.cfg.property,
            "engine": self.cfg.engine,
            "tier": if self.cfg.tier == Tier::Quick { "quick" } else { "thorough" },
            "seed": self.cfg.seed,
            "level": level,
            "evaluations": a.evaluations,
            "sub_evaluations": a.sub_evals,
            "distinct_nontrivial": a.nontrivial.len(),
            "rule": rule,
            "samples": a.samples,
            "classes": a.classes,
            "parts": a.parts,
            "known_findings_seen": a.known,
            "violations": a.violations.iter().map(|(p, m)| json!({"replay": p, "message": m})).collect::<Vec<_>>(),
            "assumptions": assumptions,
            "infra": a.infra,
            "exhaustive_parts": a.exhaustive_parts,
            "tool_runs_repeated_after_watchdog": crate::run::RETRIED_TIMEOUTS.load(Ordering::SeqCst),
            "wall_s": self.start.elapsed().as_secs_f64(),
        });
        if let Some(p) = out.parent() {
            let _ = std::fs::create_dir_all(p);
        }
        std::fs::write(out, serde_json::to_string_pretty(&doc).unwrap()).expect("write engine output");
        for (k, n) in &a.known {
            println!("KNOWN-FINDING: property={} {} (seen on {} cases)", self.cfg.property, k, n);
        }
        if let Some(m) = &a.infra {
            println!("INFRA property={} {}", self.cfg.property, m);
            return 2;
        }
        if let Some((p, m)) = a.violations.first() {
            println!("VIOLATION property={} replay={}", self.cfg.property, p);
            println!("  reason: {}", m.lines().take(12).collect::<Vec<_>>().join("\n          "));
            return 1;
        }
        0
    }
}
