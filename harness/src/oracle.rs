//! Whole-program oracles: compare one run of the real binary with the reference model.
use crate::chain::{Block, Coin};
use crate::parse::{parse_balances_summary, parse_processed_up_to, parse_stats, parse_summary, split_stdout};
use crate::render;
use crate::run::{Callback, RunOut};
use std::collections::BTreeSet;

pub fn first_diff(a: &str, b: &str) -> String {
    let la: Vec<&str> = a.split('\n').collect();
    let lb: Vec<&str> = b.split('\n').collect();
    for i in 0..la.len().max(lb.len()) {
        let x = la.get(i).copied();
        let y = lb.get(i).copied();
        if x != y {
            let clip = |s: Option<&str>| match s {
                Some(s) if s.len() > 400 => format!("{}...({} chars)", &s[..s.char_indices().nth(400).map(|c| c.0).unwrap_or(s.len())], s.len()),
                Some(s) => s.to_string(),
                None => "<no such line>".to_string(),
            };
            return format!("line {}: expected {:?} got {:?} (expected {} lines, got {})", i + 1, clip(x), clip(y), la.len() - 1, lb.len() - 1);
        }
    }
    "identical".into()
}

fn expect_ok(out: &RunOut) -> Result<(), String> {
    if out.timed_out {
        return Err(format!("tool timed out: {}", out.describe()));
    }
    if !out.ok() {
        return Err(format!("tool failed although the input is well-formed: {}", out.describe()));
    }
    Ok(())
}

/// Expected file name set for a successful run.
pub fn expected_names(cb: Callback, s: u64, e: u64) -> BTreeSet<String> {
    cb.stems().iter().map(|st| format!("{}-{}-{}.csv", st, s, e)).collect()
}

fn check_names(cb: Callback, out: &RunOut, s: u64, e: u64) -> Result<(), String> {
    let want = expected_names(cb, s, e);
    let got: BTreeSet<String> = out.files.keys().cloned().collect();
    if want != got {
        return Err(format!("dump folder content differs: expected files {:?}, found {:?}", want, got));
    }
    Ok(())
}

/// csvdump: byte-exact files, names, no *.tmp, completion totals == rows == model counts.
pub fn check_csvdump(coin: Coin, range: &[(u64, &Block)], out: &RunOut, s: u64) -> Result<(), String> {
    expect_ok(out)?;
    let e = range.last().map(|x| x.0).ok_or("empty range")?;
    check_names(Callback::CsvDump, out, s, e)?;
    let m = render::csvdump(coin, range);
    for (stem, want) in [("blocks", &m.blocks), ("transactions", &m.transactions), ("tx_in", &m.tx_in), ("tx_out", &m.tx_out)] {
        let name = format!("{}-{}-{}.csv", stem, s, e);
        let got = String::from_utf8_lossy(&out.files[&name]).into_owned();
        if &got != want {
            return Err(format!("{} differs from the reference rendering: {}", name, first_diff(want, &got)));
        }
    }
    let so = split_stdout(&out.stdout_text());
    let sum = parse_summary(&so).ok_or_else(|| format!("no completion summary on stdout: {:?}", out.stdout_text()))?;
    if (sum.from, sum.to) != (s, e) {
        return Err(format!("completion summary names heights {}..{} but {}..{} were requested/processed", sum.from, sum.to, s, e));
    }
    if (sum.txs, sum.inputs, sum.outputs) != (m.n_tx, m.n_in, m.n_out) {
        return Err(format!("completion totals (tx {}, in {}, out {}) differ from rows written (tx {}, in {}, out {})", sum.txs, sum.inputs, sum.outputs, m.n_tx, m.n_in, m.n_out));
    }
    match parse_processed_up_to(&so) {
        Some(h) if h == e => Ok(()),
        other => Err(format!("'Processed blocks up to height' reports {:?}, expected {}", other, e)),
    }
}

fn rows_of(content: &[u8], header: &str, what: &str) -> Result<Vec<String>, String> {
    let text = String::from_utf8_lossy(content).into_owned();
    if !text.is_empty() && !text.ends_with('\n') {
        return Err(format!("{} does not end with a newline (truncated?)", what));
    }
    let mut lines: Vec<String> = text.lines().map(|s| s.to_string()).collect();
    if lines.first().map(|s| s.as_str()) != Some(header) {
        return Err(format!("{}: first line {:?} is not the header {:?}", what, lines.first(), header));
    }
    lines.remove(0);
    if lines.iter().any(|l| l == header) {
        return Err(format!("{}: header line appears more than once", what));
    }
    Ok(lines)
}

fn set_diff(want: &BTreeSet<String>, got_rows: &[String], what: &str) -> Result<(), String> {
    let got: BTreeSet<String> = got_rows.iter().cloned().collect();
    if got.len() != got_rows.len() {
        let mut seen = BTreeSet::new();
        let dup = got_rows.iter().find(|r| !seen.insert((*r).clone())).unwrap();
        return Err(format!("{}: row listed twice: {}", what, dup));
    }
    if &got != want {
        let missing: Vec<&String> = want.difference(&got).take(3).collect();
        let extra: Vec<&String> = got.difference(want).take(3).collect();
        return Err(format!("{}: row set differs from the model ({} expected, {} found); missing e.g. {:?}; unexpected e.g. {:?}", what, want.len(), got.len(), missing, extra));
    }
    Ok(())
}

pub fn check_unspent(coin: Coin, range: &[(u64, &Block)], out: &RunOut, s: u64) -> Result<(), String> {
    expect_ok(out)?;
    let e = range.last().map(|x| x.0).ok_or("empty range")?;
    check_names(Callback::UnspentCsvDump, out, s, e)?;
    let name = format!("unspent-{}-{}.csv", s, e);
    let rows = rows_of(&out.files[&name], render::UNSPENT_HEADER, &name)?;
    set_diff(&render::unspent_rows(coin, range), &rows, &name)
}

pub fn check_balances(coin: Coin, range: &[(u64, &Block)], out: &RunOut, s: u64) -> Result<(), String> {
    expect_ok(out)?;
    let e = range.last().map(|x| x.0).ok_or("empty range")?;
    check_names(Callback::Balances, out, s, e)?;
    let name = format!("balances-{}-{}.csv", s, e);
    let rows = rows_of(&out.files[&name], render::BALANCES_HEADER, &name)?;
    let want = render::balances_rows(coin, range);
    set_diff(&want, &rows, &name)?;
    let so = split_stdout(&out.stdout_text());
    match parse_balances_summary(&so) {
        Some(n) if n as usize == want.len() => Ok(()),
        other => Err(format!("balances summary reports {:?} addresses, file has {}", other, want.len())),
    }
}

/// Aggregates an actual unspent file per address (model-free relation of C08).
pub fn aggregate_unspent(content: &[u8]) -> Result<BTreeSet<String>, String> {
    let rows = rows_of(content, render::UNSPENT_HEADER, "unspent file")?;
    let mut m: std::collections::BTreeMap<String, u128> = Default::default();
    for r in rows {
        let f: Vec<&str> = r.split(';').collect();
        if f.len() != 5 {
            return Err(format!("unspent row with {} fields: {}", f.len(), r));
        }
        let v: u128 = f[3].parse().map_err(|_| format!("bad value in unspent row {}", r))?;
        *m.entry(f[4].to_string()).or_insert(0) += v;
    }
    Ok(m.iter().map(|(a, v)| format!("{};{}", a, v)).collect())
}

pub fn balances_rowset(content: &[u8]) -> Result<BTreeSet<String>, String> {
    let rows = rows_of(content, render::BALANCES_HEADER, "balances file")?;
    let set: BTreeSet<String> = rows.iter().cloned().collect();
    if set.len() != rows.len() {
        return Err("balances file lists an address twice".into());
    }
    Ok(set)
}

pub fn check_opreturn(coin: Coin, range: &[(u64, &Block)], out: &RunOut) -> Result<(), String> {
    expect_ok(out)?;
    let want = match render::opreturn_lines(coin, range) {
        Ok(w) => w,
        Err(h) => return Err(format!("harness error: range contains an OP_RETURN script of unspecified shape at height {}", h)),
    };
    let so = split_stdout(&out.stdout_text());
    if so.data != want {
        return Err(format!("opreturn text differs from the model: {}", first_diff(&want, &so.data)));
    }
    Ok(())
}

/// simplestats: integers exact, means/shares within half a unit of the last printed decimal.
pub fn check_stats(coin: Coin, range: &[(u64, &Block)], out: &RunOut) -> Result<(), String> {
    check_stats_with_open(coin, range, out, &|_| false)
}

pub fn check_stats_with_open(coin: Coin, range: &[(u64, &Block)], out: &RunOut, open: &dyn Fn(&[u8]) -> bool) -> Result<(), String> {
    expect_ok(out)?;
    let so = split_stdout(&out.stdout_text());
    let r = parse_stats(&so)?;
    let m = render::stats_with_open(coin, range, open);
    let ints: [(&str, u128, u128); 6] = [
        ("valid blocks", m.blocks as u128, r.blocks as u128),
        ("total transactions", m.txs as u128, r.txs as u128),
        ("total tx inputs", m.inputs as u128, r.inputs as u128),
        ("total tx outputs", m.outputs as u128, r.outputs as u128),
        ("total tx fees (units)", m.fees, r.fee_units),
        ("total volume (units)", m.volume, r.volume_units),
    ];
    for (name, want, got) in ints {
        if want != got {
            return Err(format!("simplestats '{}': report says {}, independent recomputation gives {}", name, got, want));
        }
    }
    if !render::close_enough(r.fee_coins, m.fees, 1, 1e-8, 8) {
        return Err(format!("simplestats fee in coins {} does not match {} units", r.fee_coins, m.fees));
    }
    if !render::close_enough(r.volume_coins, m.volume, 1, 1e-8, 8) {
        return Err(format!("simplestats volume in coins {} does not match {} units", r.volume_coins, m.volume));
    }
    if let Some((v, h, t)) = m.biggest_value {
        if (r.biggest_value.0, r.biggest_value.2, r.biggest_value.3) != (v, h, t) {
            return Err(format!("simplestats biggest value tx: report ({} units, block {}, txid {}), recomputation ({} units, block {}, txid {}; first on ties)", r.biggest_value.0, r.biggest_value.2, crate::hashes::rhex(&r.biggest_value.3), v, h, crate::hashes::rhex(&t)));
        }
    }
    if let Some((sz, h, t)) = m.biggest_size {
        if (r.biggest_size.0 as usize, r.biggest_size.1, r.biggest_size.2) != (sz, h, t) {
            return Err(format!("simplestats biggest size tx: report ({} bytes, block {}, txid {}), recomputation ({} bytes, block {}, txid {}; first on ties)", r.biggest_size.0, r.biggest_size.1, crate::hashes::rhex(&r.biggest_size.2), sz, h, crate::hashes::rhex(&t)));
        }
    }
    let means: [(&str, f64, u128, u128, f64); 6] = [
        ("avg block size (KiB)", r.avg_block_kib, m.sum_block_size, m.blocks as u128, 1.0 / 1024.0),
        ("avg time between blocks (minutes)", r.avg_minutes, m.sum_gaps, m.n_gaps as u128, 1.0 / 60.0),
        ("avg txs per block", r.avg_txs_per_block, m.txs as u128, m.blocks as u128, 1.0),
        ("avg inputs per tx", r.avg_inputs_per_tx, m.inputs as u128, m.txs as u128, 1.0),
        ("avg outputs per tx", r.avg_outputs_per_tx, m.outputs as u128, m.txs as u128, 1.0),
        ("avg value per output", r.avg_value_per_output, m.volume, m.outputs as u128, 1e-8),
    ];
    for (name, got, num, den, scale) in means {
        if !render::close_enough(got, num, den, scale, 2) {
            return Err(format!("simplestats '{}': report says {}, exact value is {}/{}*{}", name, got, num, den, scale));
        }
    }
    if !r.type_label_dups.is_empty() {
        return Err(format!("simplestats lists script type {:?} twice", r.type_label_dups));
    }
    let mut total = 0u64;
    for (label, (cnt, share, h, t)) in &r.types {
        total += cnt;
        let st = match crate::parse::type_of_label(label) {
            Some(s) => s,
            None => return Err(format!("simplestats reports script type {:?} which the reference rules do not know", label)),
        };
        let ms = m.types.get(&st).cloned().unwrap_or_default();
        if *cnt < ms.must || *cnt > ms.must + ms.may || *cnt == 0 {
            return Err(format!("simplestats type {}: count {} but the reference rules give {} (plus up to {} whose type the statement leaves open)", label, cnt, ms.must, ms.may));
        }
        if !render::close_enough(*share, (*cnt as u128) * 100, m.outputs as u128, 1.0, 2) {
            return Err(format!("simplestats type {}: share {}% does not match {}/{}", label, share, cnt, m.outputs));
        }
        // acceptable first occurrences: the first output that must have this type, or any output whose
        // type the statement leaves open and that precedes it
        let must_ord = ms.first_must_ord.unwrap_or(u64::MAX);
        let ok = ms.first.map(|f| (*h, *t) == f).unwrap_or(false) || ms.may_positions.iter().any(|(o, p)| *o < must_ord && (*h, *t) == *p);
        if !ok {
            return Err(format!("simplestats type {}: first occurrence reported in block {} txid {}, expected {:?}", label, h, crate::hashes::rhex(t), ms.first.map(|f| (f.0, crate::hashes::rhex(&f.1)))));
        }
    }
    for (st, ms) in &m.types {
        if ms.must > 0 && !r.types.contains_key(st.report_name()) {
            return Err(format!("simplestats does not list script type {} although {} outputs have it", st.report_name(), ms.must));
        }
    }
    if total != m.outputs {
        return Err(format!("simplestats per-type counts add up to {} but there are {} outputs", total, m.outputs));
    }
    Ok(())
}

/// Dispatches on the callback.
pub fn check_callback(cb: Callback, coin: Coin, range: &[(u64, &Block)], out: &RunOut, s: u64) -> Result<(), String> {
    match cb {
        Callback::CsvDump => check_csvdump(coin, range, out, s),
        Callback::UnspentCsvDump => check_unspent(coin, range, out, s),
        Callback::Balances => check_balances(coin, range, out, s),
        Callback::SimpleStats => check_stats(coin, range, out),
        Callback::OpReturn => check_opreturn(coin, range, out),
    }
}
