//! Hash primitives (SHA-256 / RIPEMD-160 compression functions from `bitcoin_hashes`; everything
//! built on top of them is hand-written here).
use bitcoin_hashes::{ripemd160, sha256, Hash};

pub type H256 = [u8; 32];

pub fn sha256(data: &[u8]) -> H256 {
    sha256::Hash::hash(data).to_byte_array()
}

pub fn sha256d(data: &[u8]) -> H256 {
    sha256(&sha256(data))
}

pub fn hash160(data: &[u8]) -> [u8; 20] {
    ripemd160::Hash::hash(&sha256(data)).to_byte_array()
}

/// lowercase hex
pub fn hex(data: &[u8]) -> String {
    const D: &[u8; 16] = b"0123456789abcdef";
    let mut s = String::with_capacity(data.len() * 2);
    for b in data {
        s.push(D[(b >> 4) as usize] as char);
        s.push(D[(b & 15) as usize] as char);
    }
    s
}

/// display order of a hash: byte-reversed lowercase hex
pub fn rhex(h: &[u8]) -> String {
    let mut v = h.to_vec();
    v.reverse();
    hex(&v)
}

pub fn unhex(s: &str) -> Vec<u8> {
    let s = s.as_bytes();
    assert!(s.len() % 2 == 0, "odd hex length");
    let nib = |c: u8| -> u8 {
        match c {
            b'0'..=b'9' => c - b'0',
            b'a'..=b'f' => c - b'a' + 10,
            b'A'..=b'F' => c - b'A' + 10,
            _ => panic!("bad hex digit"),
        }
    };
    s.chunks(2).map(|c| (nib(c[0]) << 4) | nib(c[1])).collect()
}

pub fn unrhex32(s: &str) -> H256 {
    let mut v = unhex(s);
    v.reverse();
    let mut a = [0u8; 32];
    a.copy_from_slice(&v);
    a
}

/// FNV-1a 64 bit, used for case descriptors (distinctness counting) - deterministic across runs.
pub fn fnv64(data: &[u8]) -> u64 {
    let mut h: u64 = 0xcbf29ce484222325;
    for b in data {
        h ^= *b as u64;
        h = h.wrapping_mul(0x100000001b3);
    }
    h
}

/// Start-up self test against constants obtained from Python hashlib (embedded).
pub fn self_test() {
    assert_eq!(
        hex(&sha256(b"abc")),
        "ba7816bf8f01cfea414140de5dae2223b00361a396177a9cb410ff61f20015ad"
    );
    assert_eq!(
        hex(&sha256d(b"hello")),
        "9595c9df90075148eb06860365df33584b75bff782a510c6cd4883a419833d50"
    );
    // ripemd160(sha256("")) - well known
    assert_eq!(hex(&hash160(b"")), "b472a266d0bd89c13706a4132ccfb16f7c3b9fcb");
    assert_eq!(unhex("00ff10"), vec![0, 255, 16]);
}
