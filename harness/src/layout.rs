//! Physical layouts of a logical chain (C03 / C11 / C17): which file, which order, what lies
//! between the blocks, how files are numbered and named, XOR key, foreign index keys.
use crate::chain::Block;
use crate::datadir::{blk_name, rec_for, PFile, Plan, Seg, HAVE_DATA, HAVE_UNDO, VALID_SCRIPTS};
use crate::gen::BS;
use crate::spec::{hexser, mono, Built};
use proptest::collection::vec;
use proptest::prelude::*;
use serde::{Deserialize, Serialize};

#[derive(Clone, Debug, PartialEq, Eq, Serialize, Deserialize)]
pub struct FileSlot {
    pub number: u64,
    /// zero padding width of the number in the file name (5 = Bitcoin Core)
    pub pad: u8,
}

#[derive(Clone, Debug, PartialEq, Eq, Serialize, Deserialize)]
pub enum Gap {
    None,
    Zeros(u32),
    Garbage(u32, u8),
    /// the coin's magic followed by a plausible length and junk (looks like a block start)
    MagicJunk(u16, u8),
    /// a complete, well-formed but unindexed block (copy of a chain block with another nonce)
    Decoy(u16),
    /// sparse hole of that many bytes
    Hole(u64),
}

#[derive(Clone, Debug, PartialEq, Eq, Serialize, Deserialize)]
pub struct Extras {
    pub rev_files: bool,
    pub unreferenced_blk: bool,
    pub blkfoo: bool,
    pub dir_named_like_blk: bool,
    pub foreign_keys: bool,
    /// some blk files live elsewhere behind absolute symlinks; dangling / looping / directory
    /// symlinks with blk-like names that no record refers to
    #[serde(default)]
    pub symlinks: bool,
    /// which of the foreign keys are written (bit k = k-th key of the list; absent in old replay files = all)
    #[serde(default = "all_keys")]
    pub foreign_mask: u16,
    /// this many further blk files that no record names (pruned-away or pre-allocated files of a real directory)
    #[serde(default)]
    pub unreferenced_many: u16,
}

fn all_keys() -> u16 {
    u16::MAX
}

impl Default for Extras {
    fn default() -> Extras {
        Extras { rev_files: false, unreferenced_blk: false, blkfoo: false, dir_named_like_blk: false, foreign_keys: false, symlinks: false, foreign_mask: u16::MAX, unreferenced_many: 0 }
    }
}

#[derive(Clone, Debug, PartialEq, Eq, Serialize, Deserialize)]
pub struct LayoutSpec {
    pub files: Vec<FileSlot>,
    /// cyclic: block i lives in file slot mono(assign[i % len], files.len())
    pub assign: Vec<u16>,
    /// cyclic sort keys: physical order inside a file (ties: chain order)
    pub order: Vec<u16>,
    /// cyclic: bytes placed before block i
    pub gaps: Vec<Gap>,
    /// cyclic per file: bytes at the very start of the file
    pub lead: Vec<Gap>,
    #[serde(with = "optkey")]
    pub xor: Option<Vec<u8>>,
    pub extras: Extras,
    pub ldb_small: bool,
    pub ldb_reopens: u8,
    pub ldb_compact: bool,
    /// the index was written the way a node does it: records first stored as header-only or with an older position and
    /// overwritten later, records and foreign keys written and deleted again
    #[serde(default)]
    pub ldb_history: bool,
    /// xor.dat as a symlink (see Plan::xor_link)
    #[serde(default)]
    pub xor_link: u8,
}

mod optkey {
    use serde::{Deserialize, Deserializer, Serializer};
    pub fn serialize<S: Serializer>(v: &Option<Vec<u8>>, s: S) -> Result<S::Ok, S::Error> {
        match v {
            Some(k) => s.serialize_some(&crate::hashes::hex(k)),
            None => s.serialize_none(),
        }
    }
    pub fn deserialize<'de, D: Deserializer<'de>>(d: D) -> Result<Option<Vec<u8>>, D::Error> {
        let o = Option::<String>::deserialize(d)?;
        Ok(o.map(|s| crate::hashes::unhex(&s)))
    }
}

#[allow(dead_code)]
fn _use(_: &dyn Fn(&Vec<u8>)) {
    let _ = hexser::serialize::<serde_json::value::Serializer>;
}

impl LayoutSpec {
    pub fn canonical() -> LayoutSpec {
        LayoutSpec { files: vec![FileSlot { number: 0, pad: 5 }], assign: vec![0], order: vec![0], gaps: vec![Gap::None], lead: vec![Gap::None], xor: None, extras: Extras::default(), ldb_small: false, ldb_reopens: 0, ldb_compact: false, ldb_history: false, xor_link: 0 }
    }

    /// distinct file numbers in slot order
    pub fn numbers(&self) -> Vec<u64> {
        let mut used = std::collections::BTreeSet::new();
        let mut v = Vec::new();
        for f in &self.files {
            let mut n = f.number;
            while !used.insert(n) {
                n = n.wrapping_add(1);
            }
            v.push(n);
        }
        v
    }

    pub fn file_of(&self, i: usize) -> usize {
        mono(self.assign[i % self.assign.len()], self.files.len())
    }

    /// physical order of the blocks of each file: Vec per slot of chain positions
    pub fn placement(&self, nblocks: usize) -> Vec<Vec<usize>> {
        let mut per: Vec<Vec<usize>> = vec![Vec::new(); self.files.len()];
        for i in 0..nblocks {
            per[self.file_of(i)].push(i);
        }
        for p in per.iter_mut() {
            p.sort_by_key(|i| (self.order[*i % self.order.len()], *i));
        }
        per
    }

    fn gap_segs(&self, g: &Gap, magic: u32, blocks: &[(u64, Block)]) -> Vec<Seg> {
        match g {
            Gap::None => vec![],
            Gap::Zeros(n) => vec![Seg::Raw(vec![0u8; *n as usize])],
            Gap::Garbage(n, seed) => {
                let mut v = Vec::with_capacity(*n as usize);
                let mut x = (*seed as u32).wrapping_mul(2654435761).wrapping_add(12345);
                for _ in 0..*n {
                    x = x.wrapping_mul(1664525).wrapping_add(1013904223);
                    v.push((x >> 24) as u8);
                }
                vec![Seg::Raw(v)]
            }
            Gap::MagicJunk(n, seed) => {
                let mut v = magic.to_le_bytes().to_vec();
                v.extend_from_slice(&(*n as u32 + 81).to_le_bytes());
                v.extend(std::iter::repeat(*seed).take(*n as usize));
                vec![Seg::Raw(v)]
            }
            Gap::Decoy(k) => {
                let mut b = blocks[mono(*k, blocks.len())].1.clone();
                b.nonce = b.nonce.wrapping_add(0x5151_0001);
                vec![Seg::Blk { bytes: b.ser(), rec: None, magic }]
            }
            Gap::Hole(n) => vec![Seg::Hole(*n)],
        }
    }

    pub fn to_plan(&self, built: &Built) -> Plan {
        let mut plan = Plan::default();
        let magic = built.coin.magic();
        for (h, b) in &built.blocks {
            plan.recs.push(rec_for(b, *h, VALID_SCRIPTS | HAVE_DATA | HAVE_UNDO));
        }
        let numbers = self.numbers();
        let placement = self.placement(built.blocks.len());
        for (slot, order) in placement.iter().enumerate() {
            if order.is_empty() {
                continue;
            }
            let mut segs = self.gap_segs(&self.lead[slot % self.lead.len()], magic, &built.blocks);
            for i in order {
                segs.extend(self.gap_segs(&self.gaps[*i % self.gaps.len()], magic, &built.blocks));
                segs.push(Seg::Blk { bytes: built.blocks[*i].1.ser(), rec: Some(*i), magic });
            }
            plan.files.push(PFile { number: numbers[slot], name: blk_name(numbers[slot], self.files[slot].pad), segs, linked: self.extras.symlinks && slot % 2 == 1 });
        }
        plan.xor = self.xor.clone();
        plan.ldb_small_buffer = self.ldb_small;
        plan.ldb_reopens = self.ldb_reopens;
        plan.ldb_compact = self.ldb_compact;
        plan.ldb_history = self.ldb_history;
        plan.xor_link = self.xor_link;
        let used: std::collections::BTreeSet<u64> = numbers.iter().cloned().collect();
        let free = |start: u64| -> u64 {
            let mut n = start;
            while used.contains(&n) {
                n = n.wrapping_add(1);
            }
            n
        };
        if self.extras.rev_files {
            // undo files exist next to every blk file in a real directory; some are created before
            // and some after the blk files (the enumeration order decides which map entry would win)
            plan.extra_files.push(("rev00000.dat".into(), vec![0xaa; 100]));
            plan.extra_files.push(("rev00001.dat".into(), vec![]));
            for (k, (n, slot)) in numbers.iter().zip(self.files.iter()).enumerate().take(6) {
                let name = format!("rev{:0width$}.dat", n, width = slot.pad as usize);
                if k % 2 == 0 { plan.pre_files.push((name, vec![0xab; 700])) } else { plan.extra_files.push((name, vec![0xac; 700])) }
            }
        }
        if self.extras.unreferenced_blk {
            plan.extra_files.push((blk_name(free(7777), 5), b"not a block file at all".to_vec()));
        }
        for k in 0..self.extras.unreferenced_many as u64 {
            let n = 30_000 + k;
            if !used.contains(&n) {
                plan.extra_files.push((blk_name(n, 5), vec![0x5au8; 64]));
            }
        }
        if self.extras.blkfoo {
            plan.extra_files.push(("blkfoo.dat".into(), vec![1, 2, 3]));
            plan.extra_files.push(("blk.dat".into(), vec![1, 2, 3]));
            plan.extra_files.push(("blk00000.dat.bak".into(), vec![9; 50]));
            // numbers that do not fit 64 bits (2^64, 2 * 2^64, 2^64 + an indexed number, 23 digits): no record can name them
            plan.extra_files.push(("blk18446744073709551616.dat".into(), vec![0x4b; 300]));
            plan.pre_files.push(("blk36893488147419103232.dat".into(), vec![0x4c; 300]));
            plan.extra_files.push(("blk99999999999999999999999.dat".into(), vec![0x4d; 300]));
            for n in numbers.iter().take(2) {
                let big = (1u128 << 64) + *n as u128;
                plan.extra_files.push((format!("blk{}.dat", big), vec![0x4e; 700]));
                plan.pre_files.push((format!("blk{}.dat", big + (1u128 << 64)), vec![0x4f; 700]));
            }
            plan.extra_files.push(("xblk00000.dat".into(), vec![9; 50]));
            // names that repeat the prefix / suffix around the number of an indexed file
            for n in numbers.iter().take(3) {
                plan.extra_files.push((format!("blk{:05}.dat.dat", n), vec![0x44; 600]));
                plan.pre_files.push((format!("blkblk{:05}.dat", n), vec![0x45; 600]));
                plan.pre_files.push((format!("blk{:05}.dat.dat.dat", n), vec![0x48; 600]));
                plan.extra_files.push((format!("blkblkblk{:05}.dat", n), vec![0x49; 600]));
                // unreferenced blk files whose number agrees with an indexed one modulo 2^32 / 2^16
                for (k, step) in [1u64 << 32, 1u64 << 16].iter().enumerate() {
                    let alias = (n % step).wrapping_add(*step);
                    if !used.contains(&alias) {
                        let entry = (blk_name(alias, 5), vec![0x4a + k as u8; 900]);
                        if k == 0 { plan.pre_files.push(entry) } else { plan.extra_files.push(entry) }
                    }
                }
                plan.extra_files.push((format!("blk{:05}.dat.tmp", n), vec![0x46; 60]));
                plan.extra_files.push((format!("blk{:05}.DAT", n), vec![0x47; 60]));
            }
        }
        if self.extras.symlinks {
            plan.links.push((blk_name(free(9101), 5), "/nonexistent/target/blk09101.dat".into()));
            let l = blk_name(free(9102), 5);
            plan.links.push((l.clone(), l));
            plan.links.push((blk_name(free(9103), 5), "/tmp".into()));
            plan.links.push(("blkdangling.dat".into(), "nowhere".into()));
        }
        if self.extras.dir_named_like_blk {
            plan.extra_dirs.push(blk_name(free(8888), 5));
        }
        if self.extras.foreign_keys {
            // the keys Bitcoin Core keeps next to the block records (file info, last file, flags, reindex marker,
            // obfuscation key, old tx index, best block / coin entries of a shared database); any subset may be there
            let mut k = vec![0x0e, 0x00];
            k.extend_from_slice(b"obfuscate_key");
            let mut t = vec![b't'];
            t.extend_from_slice(&[0x42; 32]);
            let mut f2 = b"F".to_vec();
            f2.push(9);
            f2.extend_from_slice(b"prunedblockfiles".get(..9).unwrap_or(b""));
            let all: Vec<(Vec<u8>, Vec<u8>)> = vec![
                (vec![b'f', 0, 0, 0, 0], vec![1, 2, 3, 4, 5, 6]),
                (vec![b'f', 1, 0, 0, 0], vec![7; 12]),
                (vec![b'l'], vec![1, 0, 0, 0]),
                (b"Ftxindex".to_vec(), vec![b'1']),
                (vec![b'R'], vec![b'0']),
                (k, vec![8, 0, 0, 0, 0, 0, 0, 0, 0]),
                (t, vec![0x80, 0x00, 0x08, 0x10]),
                (vec![b'B'], vec![0x11; 32]),
                (vec![b'c'], vec![0x11; 8]),
                (f2, vec![b'0']),
                (vec![b'a', 0xff], vec![1]),
                (vec![b'c', 0x00, 0x01], vec![2]),
            ];
            for (i, kv) in all.into_iter().enumerate() {
                if self.extras.foreign_mask >> i & 1 == 1 {
                    plan.raw_kv.push(kv);
                }
            }
        }
        plan
    }

    /// number of backward seeks the height-ordered traversal needs (file-internal)
    pub fn backward_seeks(&self, nblocks: usize) -> usize {
        let placement = self.placement(nblocks);
        let mut pos = vec![0usize; nblocks];
        for p in &placement {
            for (k, i) in p.iter().enumerate() {
                pos[*i] = k;
            }
        }
        let mut last: std::collections::HashMap<usize, usize> = Default::default();
        let mut n = 0;
        for i in 0..nblocks {
            let f = self.file_of(i);
            if let Some(l) = last.get(&f) {
                if pos[i] < *l {
                    n += 1;
                }
            }
            last.insert(f, pos[i]);
        }
        n
    }

    pub fn files_used(&self, nblocks: usize) -> usize {
        self.placement(nblocks).iter().filter(|p| !p.is_empty()).count()
    }

    pub fn is_identity_order(&self, nblocks: usize) -> bool {
        self.placement(nblocks).iter().all(|p| p.windows(2).all(|w| w[0] < w[1]))
    }
}

pub fn gap(tier: crate::gen::Tier, big: bool) -> BS<Gap> {
    let mut v: Vec<(u32, BS<Gap>)> = vec![
        (8, Just(Gap::None).boxed()),
        (3, (1u32..64).prop_map(Gap::Zeros).boxed()),
        (3, (1u32..300, any::<u8>()).prop_map(|(n, s)| Gap::Garbage(n, s)).boxed()),
        (2, (0u16..200, any::<u8>()).prop_map(|(n, s)| Gap::MagicJunk(n, s)).boxed()),
        (2, any::<u16>().prop_map(Gap::Decoy).boxed()),
        (1, (32_000u32..70_000, any::<u8>()).prop_map(|(n, s)| Gap::Garbage(n, s)).boxed()),
        (1, (30_000u64..200_000).prop_map(Gap::Hole).boxed()),
    ];
    if big {
        let _ = tier;
        v.push((1, prop_oneof![Just(0x1_0000_0000u64 - 20), Just(0x1_0000_0000u64 + 5), (0xffff_f000u64..0x1_4000_0000)].prop_map(Gap::Hole).boxed()));
    }
    proptest::strategy::Union::new_weighted(v).boxed()
}

pub fn file_slots(n: usize) -> BS<Vec<FileSlot>> {
    let number = prop_oneof![6 => 0u64..40, 2 => 40u64..100_000, 1 => 100_000u64..10_000_000_000, 1 => Just(u64::MAX), 1 => (u64::MAX - 1000)..u64::MAX];
    let pad = prop_oneof![6 => Just(5u8), 1 => Just(0u8), 1 => Just(1u8), 1 => Just(8u8), 1 => Just(13u8)];
    (vec((number, pad).prop_map(|(number, pad)| FileSlot { number, pad }), n), prop_oneof![3 => Just(0u8), 1 => 1u8..4], any::<u16>(), any::<u16>())
        .prop_map(|(mut v, alias, a, b)| {
            // some file numbers agree with another one modulo 2^32 / 2^16 (narrowing of the number must not alias them)
            if alias > 0 && v.len() >= 2 {
                let (i, j) = (crate::spec::mono(a, v.len()), crate::spec::mono(b, v.len()));
                if i != j {
                    let step = match alias { 1 => 1u64 << 32, 2 => 1u64 << 16, _ => 1u64 << 48 };
                    v[j].number = (v[i].number % step).wrapping_add(step.wrapping_mul(1 + (b as u64 % 3)));
                }
            }
            v
        })
        .boxed()
}

pub fn xor_key() -> BS<Option<Vec<u8>>> {
    prop_oneof![
        3 => Just(None),
        4 => vec(any::<u8>(), 8).prop_map(Some),
        1 => Just(Some(vec![0u8; 8])),
        1 => (1usize..=24, vec(1u8..=255, 1..8)).prop_map(|(z, tail)| { let mut k = vec![0u8; z]; k.extend(tail); Some(k) }),
        1 => (any::<u8>(), 1usize..=16).prop_map(|(b, n)| Some(vec![b; n])),
        2 => (1usize..=64).prop_flat_map(|n| vec(any::<u8>(), n)).prop_map(Some),
        1 => prop_oneof![Just(1usize), Just(3usize), Just(7usize), Just(13usize), Just(31usize), Just(64usize)].prop_flat_map(|n| vec(any::<u8>(), n)).prop_map(Some),
        // keys that turn the first four bytes of a Bitcoin blk file (the network magic f9beb4d9) into another coin's magic
        1 => (proptest::sample::select(vec![0xfeb4bef9u32, 0xdbb6c0fb, 0xc0c0c0c0, 0xee7645af, 0x03b5d503, 0xe3ede5f4, 0x0709110b]), vec(any::<u8>(), 4..=8)).prop_map(|(other, tail)| { let mut k = (0xd9b4bef9u32 ^ other).to_le_bytes().to_vec(); k.extend(tail); Some(k) }),
        // the statement says any length: keys longer than Bitcoin Core's 8 bytes, than a block header, than the 32 KiB read buffer
        1 => prop_oneof![Just(65usize), Just(100usize), Just(255usize), Just(256usize), Just(1000usize), Just(4096usize), Just(32768usize), Just(32769usize), Just(70_001usize)].prop_flat_map(|n| vec(any::<u8>(), n)).prop_map(Some),
    ].boxed()
}

/// general layout strategy; `xor` chooses whether keys are drawn (C11) or not (C03)
pub fn layout(tier: crate::gen::Tier, with_xor: bool, big_holes: bool) -> BS<LayoutSpec> {
    let nfiles = prop_oneof![3 => Just(1usize), 4 => 2usize..5, 2 => 5usize..20, 1 => 20usize..60];
    let key = if with_xor { xor_key() } else { Just(None).boxed() };
    (nfiles, any::<u8>(), any::<u8>(), key, any::<[bool; 8]>(), (0u8..3, prop_oneof![1 => Just(u16::MAX), 3 => any::<u16>()], proptest::bool::weighted(0.4), prop_oneof![4 => Just(0u8), 1 => Just(1u8), 1 => Just(2u8)]))
        .prop_flat_map(move |(nf, amode, omode, xor, flags, (reopens, foreign_mask, ldb_history, xor_link))| {
            let assign: BS<Vec<u16>> = match amode % 4 {
                0 => Just(vec![0u16]).boxed(),
                1 => vec(any::<u16>(), 1..40).boxed(),
                2 => Just((0..nf).map(|k| ((k * 65536 + nf - 1) / nf) as u16).collect::<Vec<u16>>()).boxed(), // round robin
                _ => vec(any::<u16>(), 1..40).prop_map(|mut v| { v.sort(); v }).boxed(),          // spans
            };
            let order: BS<Vec<u16>> = match omode % 3 {
                0 => Just(vec![0u16]).boxed(),
                1 => vec(any::<u16>(), 1..40).boxed(),
                _ => Just((0..64u16).rev().collect::<Vec<u16>>()).boxed(),
            };
            let xor = xor.clone();
            (file_slots(nf), assign, order, vec(gap(tier, big_holes), 1..12), vec(gap(tier, big_holes), 1..4)).prop_map(move |(files, assign, order, gaps, lead)| LayoutSpec {
                files,
                assign,
                order,
                gaps,
                lead,
                xor: xor.clone(),
                extras: Extras { rev_files: flags[0], unreferenced_blk: flags[1], blkfoo: flags[2], dir_named_like_blk: flags[3], foreign_keys: flags[4], symlinks: flags[7], foreign_mask, unreferenced_many: 0 },
                ldb_small: flags[5],
                ldb_reopens: reopens,
                ldb_compact: flags[6],
                ldb_history,
                xor_link,
            })
        })
        .boxed()
}
