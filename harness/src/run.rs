//! Runs the real binary (built from /repo's working tree) with chosen options, environment,
//! resource limits and - optionally - strace-based fault injection.
use crate::chain::Coin;
use std::collections::BTreeMap;
use std::os::unix::process::{CommandExt, ExitStatusExt};
use std::path::{Path, PathBuf};
use std::process::{Command, Stdio};
use std::sync::atomic::{AtomicU64, Ordering};
use std::time::Duration;

#[derive(Clone, Copy, Debug, PartialEq, Eq, Hash, PartialOrd, Ord, serde::Serialize, serde::Deserialize)]
pub enum Callback {
    CsvDump,
    UnspentCsvDump,
    Balances,
    SimpleStats,
    OpReturn,
}

pub const ALL_CALLBACKS: [Callback; 5] = [Callback::CsvDump, Callback::UnspentCsvDump, Callback::Balances, Callback::SimpleStats, Callback::OpReturn];
pub const FILE_CALLBACKS: [Callback; 3] = [Callback::CsvDump, Callback::UnspentCsvDump, Callback::Balances];

impl Callback {
    pub fn cli(self) -> &'static str {
        match self {
            Callback::CsvDump => "csvdump",
            Callback::UnspentCsvDump => "unspentcsvdump",
            Callback::Balances => "balances",
            Callback::SimpleStats => "simplestats",
            Callback::OpReturn => "opreturn",
        }
    }
    pub fn has_dump(self) -> bool {
        matches!(self, Callback::CsvDump | Callback::UnspentCsvDump | Callback::Balances)
    }
    /// stems of the files the callback produces
    pub fn stems(self) -> &'static [&'static str] {
        match self {
            Callback::CsvDump => &["blocks", "transactions", "tx_in", "tx_out"],
            Callback::UnspentCsvDump => &["unspent"],
            Callback::Balances => &["balances"],
            _ => &[],
        }
    }
}

#[derive(Clone, Debug)]
pub struct Inject {
    /// syscall name, e.g. "write", "rename", "openat", "close"
    pub syscall: String,
    /// "error=ENOSPC" or "signal=KILL"
    pub action: String,
    /// ordinal (1-based) of the syscall among those matching `path_filter` ... strace counts per
    /// syscall name per thread; see DESIGN section 2
    pub when: u64,
    /// only syscalls touching these paths are traced/counted/injected (strace -P)
    pub paths: Vec<PathBuf>,
    /// strace `when=` expression (e.g. "2+3" = the 2nd, 5th, 8th ... call); overrides `when`
    pub when_expr: Option<String>,
}

#[derive(Clone, Debug)]
pub struct RunOpts {
    pub coin: Coin,
    pub start: Option<u64>,
    pub end: Option<u64>,
    pub verify: bool,
    pub callback: Callback,
    pub threads: Option<u32>,
    /// RLIMIT_FSIZE in bytes, with SIGXFSZ ignored (writes beyond fail with EFBIG)
    pub fsize: Option<u64>,
    pub nofile: Option<u64>,
    /// pin to CPU 0
    pub pin: bool,
    pub inject: Option<Inject>,
    /// record a syscall trace (strace -f -e trace=...) to this file
    pub trace: Option<(String, PathBuf)>,
    /// restrict the trace to syscalls touching these paths
    pub trace_paths: Vec<PathBuf>,
    pub timeout_s: u64,
    pub verbose: u8,
    /// how the two directories are spelled on the command line: 0 absolute, 1 relative to the working directory,
    /// 2 absolute with trailing slash, 3 './name/' relative, 4 absolute with '/../name' and '/./' detours;
    /// styles != 0 also set TZ to a far-off POSIX zone (only log timestamps may depend on it)
    pub path_style: u8,
    /// binary to run instead of the default debug build (release-build passes)
    pub bin: Option<PathBuf>,
    /// when this text appears on stdout, stop the process (SIGSTOP) for that many seconds, then
    /// continue it: lets wall-clock driven code (the 10 s progress line) run on a small chain
    pub pause_on: Option<(String, f64)>,
    /// shift the process's wall clock by this many seconds (LD_PRELOAD shim tools/vpclock.c; ignored when the shim
    /// was not built): the result of a run must not depend on when it happens
    pub clock_offset: Option<i64>,
    /// stdout of the tool is a pseudo terminal (raw mode, so the bytes arrive unchanged) instead of a pipe: what is
    /// printed must not depend on whether somebody is watching
    pub tty: bool,
    /// leave out `-c bitcoin` (Bitcoin is the documented default coin); ignored for other coins
    pub default_coin: bool,
    /// directory that holds the HOME and TMPDIR of the run (default: the parent of the dump folder, i.e. the scratch
    /// directory of the case); lets runs over different data directories share them
    pub state_dir: Option<PathBuf>,
    /// TMPDIR of the run lies on another file system than the dump folder (the scratch directories live on /dev/shm,
    /// this TMPDIR under /var/tmp or /tmp); ignored when no second writable file system is found
    pub tmp_elsewhere: bool,
}

/// Some(cpu ticks used so far) if every thread of the process is sleeping (state S or D, i.e. blocked in the kernel -
/// a stopped process has state T), None if any thread is running or the process is gone
fn all_threads_blocked(pid: u32) -> Option<u64> {
    let mut ticks = 0u64;
    let mut n = 0;
    for e in std::fs::read_dir(format!("/proc/{}/task", pid)).ok()?.flatten() {
        let st = std::fs::read_to_string(e.path().join("stat")).ok()?;
        let rest = st.rsplit_once(") ")?.1;
        let f: Vec<&str> = rest.split(' ').collect();
        if !matches!(f.first().copied(), Some("S") | Some("D")) {
            return None;
        }
        ticks += f.get(11)?.parse::<u64>().ok()? + f.get(12)?.parse::<u64>().ok()?;
        n += 1;
    }
    if n == 0 { None } else { Some(ticks) }
}

/// the clock shim built by `vp setup` (None when it is missing)
pub fn clock_lib() -> Option<PathBuf> {
    let p = std::env::var("VP_CLOCK_LIB").map(PathBuf::from).unwrap_or_else(|_| PathBuf::from("/verif/.cache/libvpclock.so"));
    if p.exists() { Some(p) } else { None }
}

impl RunOpts {
    pub fn new(coin: Coin, callback: Callback) -> RunOpts {
        RunOpts { coin, start: None, end: None, verify: false, callback, threads: None, fsize: None, nofile: None, pin: false, inject: None, trace: None, trace_paths: vec![], timeout_s: std::env::var("VP_TIMEOUT").ok().and_then(|v| v.parse().ok()).unwrap_or(90), verbose: 0, path_style: 0, bin: None, pause_on: None, clock_offset: None, tty: false, default_coin: false, state_dir: None, tmp_elsewhere: false }
    }
}

#[derive(Clone, Debug)]
pub struct RunOut {
    pub code: Option<i32>,
    pub signal: Option<i32>,
    pub timed_out: bool,
    /// the run was cut because every thread of the tool was blocked (sleeping in the kernel) and the process used no
    /// CPU time for 12 s: not slowness, a state from which the run cannot complete
    pub deadlocked: bool,
    pub stdout: Vec<u8>,
    pub stderr: Vec<u8>,
    /// files in the dump folder after the run (name -> content)
    pub files: BTreeMap<String, Vec<u8>>,
}

impl RunOut {
    pub fn ok(&self) -> bool {
        self.code == Some(0)
    }
    pub fn stderr_text(&self) -> String {
        String::from_utf8_lossy(&self.stderr).into_owned()
    }
    pub fn stdout_text(&self) -> String {
        String::from_utf8_lossy(&self.stdout).into_owned()
    }
    pub fn describe(&self) -> String {
        let mut e = self.stderr_text();
        if e.len() > 1500 {
            e.truncate(1500);
        }
        format!("exit={:?} signal={:?} timed_out={} files={:?} stderr=<<{}>>", self.code, self.signal, self.timed_out, self.files.keys().collect::<Vec<_>>(), e.trim())
    }
    pub fn final_files(&self) -> Vec<&String> {
        self.files.keys().filter(|n| n.ends_with(".csv")).collect()
    }
    pub fn tmp_files(&self) -> Vec<&String> {
        self.files.keys().filter(|n| n.ends_with(".tmp")).collect()
    }
}

pub fn tool_bin() -> PathBuf {
    match std::env::var("VP_TOOL_BIN") {
        Ok(p) => PathBuf::from(p),
        Err(_) => PathBuf::from("/verif/.cache/repo-target/debug/rusty-blockparser"),
    }
}

static COUNTER: AtomicU64 = AtomicU64::new(0);
pub static TIMED_OUT: AtomicU64 = AtomicU64::new(0);

/// Scratch directory, removed on drop. Lives on tmpfs when available.
pub struct Scratch {
    pub path: PathBuf,
}

pub fn scratch_root() -> PathBuf {
    if let Ok(p) = std::env::var("VP_SCRATCH") {
        return PathBuf::from(p);
    }
    let shm = Path::new("/dev/shm");
    if shm.is_dir() {
        shm.join(format!("vp-{}", std::process::id()))
    } else {
        std::env::temp_dir().join(format!("vp-{}", std::process::id()))
    }
}

impl Scratch {
    pub fn new(tag: &str) -> Scratch {
        let n = COUNTER.fetch_add(1, Ordering::SeqCst);
        let path = scratch_root().join(format!("{}-{}", tag, n));
        let _ = std::fs::remove_dir_all(&path);
        std::fs::create_dir_all(&path).expect("create scratch dir");
        Scratch { path }
    }
    pub fn sub(&self, name: &str) -> PathBuf {
        let p = self.path.join(name);
        std::fs::create_dir_all(&p).expect("create scratch subdir");
        p
    }
}

impl Drop for Scratch {
    fn drop(&mut self) {
        if std::env::var("VP_KEEP").is_ok() || (std::env::var("VP_KEEP_ON_TIMEOUT").is_ok() && TIMED_OUT.load(Ordering::SeqCst) > 0) {
            eprintln!("kept {}", self.path.display());
            return;
        }
        let _ = std::fs::remove_dir_all(&self.path);
    }
}

/// removes scratch roots left behind by engine processes that no longer exist (killed runs)
pub fn cleanup_stale_roots() {
    let base = match scratch_root().parent() {
        Some(p) => p.to_path_buf(),
        None => return,
    };
    if let Ok(rd) = std::fs::read_dir(&base) {
        for e in rd.flatten() {
            let name = e.file_name().to_string_lossy().into_owned();
            if let Some(pid) = name.strip_prefix("vp-").and_then(|p| p.parse::<u32>().ok()) {
                if pid != std::process::id() && !Path::new(&format!("/proc/{}", pid)).exists() {
                    let _ = std::fs::remove_dir_all(e.path());
                }
            }
        }
    }
}

/// removes TMPDIRs on other file systems (see RunOpts::tmp_elsewhere) left behind by dead engine processes
pub fn cleanup_foreign_tmp() {
    for base in ["/var/tmp", "/tmp"] {
        if let Ok(rd) = std::fs::read_dir(base) {
            for e in rd.flatten() {
                let name = e.file_name().to_string_lossy().into_owned();
                if let Some(pid) = name.strip_prefix("vp-xdev-").and_then(|r| r.split('-').next()).and_then(|p| p.parse::<u32>().ok()) {
                    if pid == std::process::id() || !Path::new(&format!("/proc/{}", pid)).exists() {
                        let _ = std::fs::remove_dir_all(e.path());
                    }
                }
            }
        }
    }
}

pub fn cleanup_root() {
    cleanup_foreign_tmp();
    if std::env::var("VP_KEEP").is_ok() || (std::env::var("VP_KEEP_ON_TIMEOUT").is_ok() && TIMED_OUT.load(Ordering::SeqCst) > 0) {
        return;
    }
    let _ = std::fs::remove_dir_all(scratch_root());
}

pub fn read_dir_files(dir: &Path) -> BTreeMap<String, Vec<u8>> {
    let mut m = BTreeMap::new();
    if let Ok(rd) = std::fs::read_dir(dir) {
        for e in rd.flatten() {
            let name = e.file_name().to_string_lossy().into_owned();
            if e.path().is_file() {
                m.insert(name, std::fs::read(e.path()).unwrap_or_default());
            }
        }
    }
    m
}

/// number of runs that hit the watchdog and were repeated (see DESIGN section 9: the index
/// iterator of the rusty-leveldb dependency contains a zero-drift random walk that very rarely
/// spins for minutes, independent of the input)
pub static RETRIED_TIMEOUTS: AtomicU64 = AtomicU64::new(0);

/// Runs the tool. `dump` is the dump folder for file-producing callbacks (must exist).
/// A run that hits the watchdog is repeated (up to 3 attempts, dump folder restored to its
/// previous content first); only three time-outs in a row are reported as `timed_out`.
pub fn run_tool(datadir: &Path, dump: &Path, o: &RunOpts) -> Result<RunOut, String> {
    let before = if o.callback.has_dump() { read_dir_files(dump) } else { BTreeMap::new() };
    let mut last = None;
    for attempt in 0..3 {
        if attempt > 0 {
            RETRIED_TIMEOUTS.fetch_add(1, Ordering::SeqCst);
            if o.callback.has_dump() {
                let _ = std::fs::remove_dir_all(dump);
                std::fs::create_dir_all(dump).map_err(|e| e.to_string())?;
                for (n, c) in &before {
                    std::fs::write(dump.join(n), c).map_err(|e| e.to_string())?;
                }
            }
        }
        let r = run_tool_once(datadir, dump, o)?;
        if !r.timed_out || o.inject.is_some() {
            return Ok(r);
        }
        last = Some(r);
    }
    Ok(last.unwrap())
}

fn run_tool_once(datadir: &Path, dump: &Path, o: &RunOpts) -> Result<RunOut, String> {
    let bin = o.bin.clone().unwrap_or_else(tool_bin);
    let mut cwd: Option<std::path::PathBuf> = None;
    let (mut dstr, mut dumpstr) = (datadir.display().to_string(), dump.display().to_string());
    let style = if o.inject.is_some() || o.trace.is_some() { 0 } else { o.path_style };
    if let (true, Some(p1), Some(p2), Some(dn), Some(un)) = (style != 0, datadir.parent(), dump.parent(), datadir.file_name().and_then(|n| n.to_str()), dump.file_name().and_then(|n| n.to_str())) {
        if p1 == p2 {
            match style {
                1 => {
                    dstr = dn.to_string();
                    dumpstr = un.to_string();
                    cwd = Some(p1.to_path_buf());
                }
                2 => {
                    dstr.push('/');
                    dumpstr.push('/');
                }
                3 => {
                    dstr = format!("./{}/", dn);
                    dumpstr = format!("./{}//", un);
                    cwd = Some(p1.to_path_buf());
                }
                _ => {
                    dstr = format!("{}/../{}", dstr, dn);
                    dumpstr = format!("{}/./", dumpstr);
                }
            }
        }
    }
    let mut args: Vec<String> = vec!["-d".into(), dstr];
    if !(o.default_coin && o.coin == Coin::Bitcoin) {
        args.push("-c".into());
        args.push(o.coin.cli().into());
    }
    if let Some(s) = o.start {
        args.push("-s".into());
        args.push(s.to_string());
    }
    if let Some(e) = o.end {
        args.push("-e".into());
        args.push(e.to_string());
    }
    if o.verify {
        args.push("--verify".into());
    }
    for _ in 0..o.verbose {
        args.push("-v".into());
    }
    args.push(o.callback.cli().into());
    if o.callback.has_dump() {
        args.push(dumpstr);
    }
    let io_dir = dump.parent().unwrap_or(dump).join(format!("io-{}", COUNTER.fetch_add(1, Ordering::SeqCst)));
    std::fs::create_dir_all(&io_dir).map_err(|e| e.to_string())?;
    let out_path = io_dir.join("stdout");
    let err_path = io_dir.join("stderr");
    let mut cmd = if o.inject.is_some() || o.trace.is_some() {
        let mut c = Command::new("strace");
        c.arg("-f").arg("-qq");
        if let Some(inj) = &o.inject {
            for p in &inj.paths {
                c.arg("-P").arg(p);
            }
            c.arg("-e").arg(format!("trace={}", inj.syscall));
            let when = inj.when_expr.clone().unwrap_or_else(|| inj.when.to_string());
            c.arg("-e").arg(format!("inject={}:{}:when={}", inj.syscall, inj.action, when));
            c.arg("-o").arg(io_dir.join("strace.log"));
        } else if let Some((what, path)) = &o.trace {
            for p in &o.trace_paths {
                c.arg("-P").arg(p);
            }
            c.arg("-e").arg(format!("trace={}", what));
            c.arg("-o").arg(path);
        }
        c.arg(&bin);
        c
    } else {
        Command::new(&bin)
    };
    cmd.args(&args);
    cmd.stdin(Stdio::null());
    // stdout/stderr go through pipes, not files: RLIMIT_FSIZE (C10) must only bite on the files the
    // tool itself creates, never on the harness's capture of its log output
    cmd.stdout(Stdio::piped());
    cmd.stderr(Stdio::piped());
    let _ = (&out_path, &err_path);
    // HOME and TMPDIR are private to the scratch directory of the case (runs of different cases execute at the same time
    // and must not meet in a shared location) but shared by all runs of one case: what a run leaves there is part of the
    // history a later run of the same case starts from
    let case_dir = o.state_dir.clone().unwrap_or_else(|| dump.parent().unwrap_or(dump).to_path_buf());
    let (home, tmp) = (case_dir.join("home"), case_dir.join("tmp"));
    let mut tmp = tmp;
    let mut foreign_tmp: Option<PathBuf> = None;
    if o.tmp_elsewhere {
        use std::os::unix::fs::MetadataExt;
        let dev = std::fs::metadata(dump).map(|m| m.dev()).ok();
        for cand in ["/var/tmp", "/tmp"] {
            let base = PathBuf::from(cand);
            if base.is_dir() && std::fs::metadata(&base).map(|m| Some(m.dev()) != dev).unwrap_or(false) {
                let d = base.join(format!("vp-xdev-{}-{}", std::process::id(), COUNTER.fetch_add(1, Ordering::SeqCst)));
                if std::fs::create_dir_all(&d).is_ok() {
                    tmp = d.clone();
                    foreign_tmp = Some(d);
                    break;
                }
            }
        }
    }
    let _ = std::fs::create_dir_all(&home);
    let _ = std::fs::create_dir_all(&tmp);
    cmd.env("HOME", home.display().to_string());
    cmd.env("TMPDIR", tmp.display().to_string());
    cmd.env_remove("XDG_CACHE_HOME");
    cmd.env_remove("XDG_RUNTIME_DIR");
    cmd.env_remove("XDG_STATE_HOME");
    if let Some(d) = &cwd {
        cmd.current_dir(d);
    }
    match style {
        0 => {
            cmd.env_remove("TZ");
        }
        1 | 3 => {
            cmd.env("TZ", "XXX-14");
        }
        _ => {
            cmd.env("TZ", "YYY+11:30");
        }
    }
    if let (Some(off), Some(lib)) = (o.clock_offset, clock_lib()) {
        cmd.env("LD_PRELOAD", lib.display().to_string());
        cmd.env("VP_CLOCK_OFFSET", off.to_string());
    }
    cmd.env_remove("RUST_LOG");
    cmd.env("RUST_BACKTRACE", "0");
    match o.threads {
        Some(t) => {
            cmd.env("RAYON_NUM_THREADS", t.to_string());
        }
        None => {
            cmd.env("RAYON_NUM_THREADS", "2");
        }
    }
    let fsize = o.fsize;
    let nofile = o.nofile;
    let pin = o.pin;
    unsafe {
        cmd.pre_exec(move || {
            // descriptors inherited from whatever started the check must not reach the tool: they would
            // shift every descriptor-limit measurement (C17) by an environment-dependent amount
            for fd in 3..1024 {
                let fl = libc::fcntl(fd, libc::F_GETFD);
                if fl >= 0 {
                    libc::fcntl(fd, libc::F_SETFD, fl | libc::FD_CLOEXEC);
                }
            }
            if let Some(l) = fsize {
                libc::signal(libc::SIGXFSZ, libc::SIG_IGN);
                let r = libc::rlimit { rlim_cur: l, rlim_max: l };
                if libc::setrlimit(libc::RLIMIT_FSIZE, &r) != 0 {
                    return Err(std::io::Error::last_os_error());
                }
            }
            if let Some(n) = nofile {
                let r = libc::rlimit { rlim_cur: n, rlim_max: n };
                if libc::setrlimit(libc::RLIMIT_NOFILE, &r) != 0 {
                    return Err(std::io::Error::last_os_error());
                }
            }
            if pin {
                let mut set: libc::cpu_set_t = std::mem::zeroed();
                libc::CPU_SET(0, &mut set);
                libc::sched_setaffinity(0, std::mem::size_of::<libc::cpu_set_t>(), &set);
            }
            Ok(())
        });
    }
    let mut pty_master: Option<std::fs::File> = None;
    if o.tty {
        use std::os::fd::FromRawFd;
        let (mut m, mut sl) = (0i32, 0i32);
        let ok = unsafe { libc::openpty(&mut m, &mut sl, std::ptr::null_mut(), std::ptr::null_mut(), std::ptr::null_mut()) } == 0;
        if ok {
            unsafe {
                let mut t: libc::termios = std::mem::zeroed();
                libc::tcgetattr(sl, &mut t);
                libc::cfmakeraw(&mut t);
                libc::tcsetattr(sl, libc::TCSANOW, &t);
                libc::fcntl(m, libc::F_SETFD, libc::FD_CLOEXEC);
                cmd.stdout(Stdio::from(std::os::fd::OwnedFd::from_raw_fd(sl)));
                pty_master = Some(std::fs::File::from_raw_fd(m));
            }
        }
    }
    let mut child = cmd.spawn().map_err(|e| format!("spawn {}: {}", bin.display(), e))?;
    // the command owns the slave side of the pseudo terminal: release it so that the master sees the end of output
    drop(cmd);
    let mut so: Box<dyn std::io::Read + Send> = match pty_master {
        Some(m) => Box::new(m),
        None => Box::new(child.stdout.take().expect("piped stdout")),
    };
    let mut se = child.stderr.take().expect("piped stderr");
    let pause = o.pause_on.clone();
    let pid = child.id() as i32;
    let t_out = std::thread::spawn(move || {
        let mut v = Vec::new();
        let mut paused = false;
        let mut buf = [0u8; 8192];
        loop {
            match std::io::Read::read(&mut so, &mut buf) {
                Ok(0) | Err(_) => break,
                Ok(n) => v.extend_from_slice(&buf[..n]),
            }
            if let (Some((marker, secs)), false) = (&pause, paused) {
                if v.windows(marker.len()).any(|w| w == marker.as_bytes()) {
                    paused = true;
                    unsafe { libc::kill(pid, libc::SIGSTOP) };
                    std::thread::sleep(Duration::from_secs_f64(*secs));
                    unsafe { libc::kill(pid, libc::SIGCONT) };
                }
            }
        }
        v
    });
    let t_err = std::thread::spawn(move || {
        let mut v = Vec::new();
        let _ = std::io::Read::read_to_end(&mut se, &mut v);
        v
    });
    // plain polling: no SIGCHLD machinery that could miss a wake-up when 16 shards wait at once
    let started = std::time::Instant::now();
    let deadline = started + Duration::from_secs(o.timeout_s);
    let mut nap = Duration::from_micros(500);
    let mut deadlocked = false;
    let mut idle: Option<(u64, std::time::Instant)> = None; // (cpu ticks, since when unchanged)
    let mut next_probe = started + Duration::from_secs(8);
    let watch_idle = o.inject.is_none() && o.trace.is_none() && o.pause_on.is_none();
    let status = loop {
        match child.try_wait().map_err(|e| e.to_string())? {
            Some(s) => break Some(s),
            None => {
                let now = std::time::Instant::now();
                if watch_idle && now >= next_probe {
                    next_probe = now + Duration::from_secs(2);
                    match all_threads_blocked(child.id()) {
                        Some(ticks) => match idle {
                            Some((t0, since)) if t0 == ticks => {
                                if now.duration_since(since) >= Duration::from_secs(12) {
                                    deadlocked = true;
                                    break None;
                                }
                            }
                            _ => idle = Some((ticks, now)),
                        },
                        None => idle = None,
                    }
                }
                if now >= deadline {
                    break None;
                }
                std::thread::sleep(nap);
                if nap < Duration::from_millis(4) {
                    nap *= 2;
                }
            }
        }
    };
    let (code, signal, timed_out) = match status {
        Some(s) => (s.code(), s.signal(), false),
        None => {
            TIMED_OUT.fetch_add(1, Ordering::SeqCst);
            if std::env::var("VP_KEEP_ON_TIMEOUT").is_ok() {
                let bt = Command::new("gdb").args(["-batch", "-ex", "thread apply all bt", "-p", &child.id().to_string()]).output().map(|o| String::from_utf8_lossy(&o.stdout).into_owned()).unwrap_or_default();
                eprintln!("TIMEOUT pid {} args {:?} syscall: {} wchan: {}\n{}", child.id(), args, std::fs::read_to_string(format!("/proc/{}/syscall", child.id())).unwrap_or_default(), std::fs::read_to_string(format!("/proc/{}/wchan", child.id())).unwrap_or_default(), bt);
            }
            let _ = child.kill();
            let _ = child.wait();
            (None, None, true)
        }
    };
    let stdout = t_out.join().unwrap_or_default();
    let stderr = t_err.join().unwrap_or_default();
    let files = if o.callback.has_dump() { read_dir_files(dump) } else { BTreeMap::new() };
    if let Some(d) = &foreign_tmp {
        let _ = std::fs::remove_dir_all(d);
    }
    let res = RunOut { code, signal, timed_out, deadlocked, stdout, stderr, files };
    if o.inject.is_some() {
        // keep the strace log next to stderr for diagnosis of the injected run
        if let Ok(l) = std::fs::read(io_dir.join("strace.log")) {
            let mut r = res;
            r.stderr.extend_from_slice(b"\n--strace--\n");
            r.stderr.extend_from_slice(&l);
            let _ = std::fs::remove_dir_all(&io_dir);
            return Ok(r);
        }
    }
    let _ = std::fs::remove_dir_all(&io_dir);
    Ok(res)
}
