//! Materialises a data directory: blk*.dat files, xor.dat, LevelDB block index.
//! Hand-written writer side of Bitcoin Core's formats (the tool only reads them).
use crate::chain::Coin;
use crate::hashes::H256;
use std::io::{Seek, SeekFrom, Write};
use std::path::Path;

/// Bitcoin Core VarInt (serialize.h WriteVarInt): MSB base-128 with the "-1" carry.
pub fn core_varint(mut n: u64, out: &mut Vec<u8>) {
    let mut tmp = [0u8; 10];
    let mut len = 0usize;
    loop {
        tmp[len] = ((n & 0x7f) as u8) | if len > 0 { 0x80 } else { 0 };
        if n <= 0x7f {
            break;
        }
        n = (n >> 7) - 1;
        len += 1;
    }
    loop {
        out.push(tmp[len]);
        if len == 0 {
            break;
        }
        len -= 1;
    }
}

pub const VALID_HEADER: u64 = 1;
pub const VALID_TREE: u64 = 2;
pub const VALID_TRANSACTIONS: u64 = 3;
pub const VALID_CHAIN: u64 = 4;
pub const VALID_SCRIPTS: u64 = 5;
pub const HAVE_DATA: u64 = 8;
pub const HAVE_UNDO: u64 = 16;
pub const FAILED_VALID: u64 = 32;
pub const FAILED_CHILD: u64 = 64;
pub const OPT_WITNESS: u64 = 128;

#[derive(Clone, Debug)]
pub struct Rec {
    pub hash: H256,
    pub client_version: u64,
    pub height: u64,
    pub status: u64,
    pub ntx: u64,
    pub file: u64,
    pub data_pos: u64,
    pub undo_pos: u64,
    pub header: [u8; 80],
}

impl Rec {
    /// CDiskBlockIndex serialisation: optional fields present iff the status bits say so
    pub fn value(&self) -> Vec<u8> {
        let mut v = Vec::with_capacity(100);
        core_varint(self.client_version, &mut v);
        core_varint(self.height, &mut v);
        core_varint(self.status, &mut v);
        core_varint(self.ntx, &mut v);
        if self.status & (HAVE_DATA | HAVE_UNDO) != 0 {
            core_varint(self.file, &mut v);
        }
        if self.status & HAVE_DATA != 0 {
            core_varint(self.data_pos, &mut v);
        }
        if self.status & HAVE_UNDO != 0 {
            core_varint(self.undo_pos, &mut v);
        }
        v.extend_from_slice(&self.header);
        v
    }
    pub fn key(&self) -> Vec<u8> {
        let mut k = vec![b'b'];
        k.extend_from_slice(&self.hash);
        k
    }
}

#[derive(Clone, Debug)]
pub enum Seg {
    Raw(Vec<u8>),
    /// file hole of that many bytes (sparse)
    Hole(u64),
    /// magic + length prefix + block bytes; `rec` = index into `Plan::recs` whose (file, data_pos) is set
    Blk { bytes: Vec<u8>, rec: Option<usize>, magic: u32 },
    /// length prefix + block bytes WITHOUT the four magic bytes in front (the index locates a block by the offset of its
    /// first byte; only the four bytes before it - the length - are part of the addressing)
    BlkBare { bytes: Vec<u8>, rec: Option<usize> },
}

#[derive(Clone, Debug)]
pub struct PFile {
    pub number: u64,
    pub name: String,
    pub segs: Vec<Seg>,
    /// store the file in a sibling directory and put an absolute symlink into the data directory
    pub linked: bool,
}

#[derive(Clone, Debug, Default)]
pub struct Plan {
    pub files: Vec<PFile>,
    pub recs: Vec<Rec>,
    pub raw_kv: Vec<(Vec<u8>, Vec<u8>)>,
    pub xor: Option<Vec<u8>>,
    pub extra_files: Vec<(String, Vec<u8>)>,
    /// extra files created BEFORE the blk files (directory enumeration order differs)
    pub pre_files: Vec<(String, Vec<u8>)>,
    pub extra_dirs: Vec<String>,
    /// symlinks to create in the data directory: (name, target as written)
    pub links: Vec<(String, String)>,
    pub ldb_small_buffer: bool,
    pub ldb_reopens: u8,
    pub ldb_compact: bool,
    pub ldb_history: bool,
    /// how xor.dat exists: 0 regular file, 1 absolute symlink to a file of another name in a sibling directory,
    /// 2 relative symlink to a file of another name in the same directory
    pub xor_link: u8,
}

pub fn blk_name(number: u64, pad: u8) -> String {
    format!("blk{:0width$}.dat", number, width = pad as usize)
}

struct XorWriter<W: Write + Seek> {
    w: W,
    key: Option<Vec<u8>>,
    pos: u64,
    buf: Vec<u8>,
}

impl<W: Write + Seek> XorWriter<W> {
    fn put(&mut self, data: &[u8]) -> std::io::Result<()> {
        match &self.key {
            Some(k) if !k.is_empty() => {
                let kl = k.len() as u64;
                self.buf.clear();
                self.buf.extend(data.iter().enumerate().map(|(i, b)| b ^ k[((self.pos + i as u64) % kl) as usize]));
                self.w.write_all(&self.buf)?;
            }
            _ => self.w.write_all(data)?,
        }
        self.pos += data.len() as u64;
        Ok(())
    }
    fn hole(&mut self, n: u64) -> std::io::Result<()> {
        self.pos += n;
        self.w.seek(SeekFrom::Start(self.pos))?;
        Ok(())
    }
}

impl Plan {
    /// Writes the whole data directory (block files, then the index with the final positions).
    pub fn write(&mut self, dir: &Path) -> Result<(), String> {
        self.write_files(dir)?;
        self.write_index(&dir.join("index"))
    }

    /// Writes everything except the index; fills in the (file, position) of the index records.
    pub fn write_files(&mut self, dir: &Path) -> Result<(), String> {
        std::fs::create_dir_all(dir).map_err(|e| e.to_string())?;
        for (n, c) in &self.pre_files {
            std::fs::write(dir.join(n), c).map_err(|e| e.to_string())?;
        }
        for f in &self.files {
            let path = if f.linked {
                let store = dir.parent().unwrap_or(dir).join("linked-blk-store");
                std::fs::create_dir_all(&store).map_err(|e| e.to_string())?;
                let abs = std::fs::canonicalize(&store).map_err(|e| e.to_string())?.join(&f.name);
                std::os::unix::fs::symlink(&abs, dir.join(&f.name)).map_err(|e| e.to_string())?;
                abs
            } else {
                dir.join(&f.name)
            };
            let file = std::fs::File::create(&path).map_err(|e| format!("create {}: {}", path.display(), e))?;
            let mut w = XorWriter { w: std::io::BufWriter::with_capacity(1 << 16, file), key: self.xor.clone(), pos: 0, buf: Vec::new() };
            let mut end_with_hole = false;
            for s in &f.segs {
                end_with_hole = false;
                match s {
                    Seg::Raw(b) => w.put(b).map_err(|e| e.to_string())?,
                    Seg::Hole(n) => {
                        w.w.flush().map_err(|e| e.to_string())?;
                        w.hole(*n).map_err(|e| e.to_string())?;
                        end_with_hole = true;
                    }
                    Seg::BlkBare { bytes, rec } => {
                        w.put(&(bytes.len() as u32).to_le_bytes()).map_err(|e| e.to_string())?;
                        if let Some(r) = rec {
                            self.recs[*r].file = f.number;
                            self.recs[*r].data_pos = w.pos;
                        }
                        w.put(bytes).map_err(|e| e.to_string())?;
                    }
                    Seg::Blk { bytes, rec, magic } => {
                        w.put(&magic.to_le_bytes()).map_err(|e| e.to_string())?;
                        w.put(&(bytes.len() as u32).to_le_bytes()).map_err(|e| e.to_string())?;
                        if let Some(r) = rec {
                            self.recs[*r].file = f.number;
                            self.recs[*r].data_pos = w.pos;
                        }
                        w.put(bytes).map_err(|e| e.to_string())?;
                    }
                }
            }
            w.w.flush().map_err(|e| e.to_string())?;
            if end_with_hole {
                let inner = w.w.into_inner().map_err(|e| e.to_string())?;
                inner.set_len(w.pos).map_err(|e| e.to_string())?;
            }
        }
        if let Some(k) = &self.xor {
            match self.xor_link {
                1 => {
                    let side = dir.with_file_name(format!("{}-keys", dir.file_name().and_then(|n| n.to_str()).unwrap_or("data")));
                    std::fs::create_dir_all(&side).map_err(|e| e.to_string())?;
                    std::fs::write(side.join("blocks.key"), k).map_err(|e| e.to_string())?;
                    std::os::unix::fs::symlink(side.join("blocks.key"), dir.join("xor.dat")).map_err(|e| e.to_string())?;
                }
                2 => {
                    std::fs::write(dir.join("obfuscation.key"), k).map_err(|e| e.to_string())?;
                    std::os::unix::fs::symlink("obfuscation.key", dir.join("xor.dat")).map_err(|e| e.to_string())?;
                }
                _ => std::fs::write(dir.join("xor.dat"), k).map_err(|e| e.to_string())?,
            }
        }
        for (n, c) in &self.extra_files {
            std::fs::write(dir.join(n), c).map_err(|e| e.to_string())?;
        }
        for (n, target) in &self.links {
            let _ = std::os::unix::fs::symlink(target, dir.join(n));
        }
        for d in &self.extra_dirs {
            std::fs::create_dir_all(dir.join(d)).map_err(|e| e.to_string())?;
        }
        Ok(())
    }

    pub fn write_index(&self, path: &Path) -> Result<(), String> {
        let mut kvs: Vec<(Vec<u8>, Vec<u8>)> = self.recs.iter().map(|r| (r.key(), r.value())).collect();
        kvs.extend(self.raw_kv.iter().cloned());
        let mk_opts = || {
            let mut o = rusty_leveldb::Options::default();
            o.create_if_missing = true;
            if self.ldb_small_buffer {
                o.write_buffer_size = 2048;
            }
            o
        };
        if self.ldb_history {
            // what a node's database went through before it reached its final content: a record is first written when
            // only the header is known (VALID_TREE, no file fields), or with the position of an earlier download, and
            // overwritten later; records of headers that turned out invalid and foreign keys are written and deleted
            let mut db = rusty_leveldb::DB::open(path, mk_opts()).map_err(|e| format!("leveldb open: {}", e))?;
            let mut deleted: Vec<Vec<u8>> = Vec::new();
            for (i, r) in self.recs.iter().enumerate() {
                let sel = (r.hash[0] as usize + i) % 4;
                let mut old = r.clone();
                if sel == 0 {
                    old.status = VALID_TREE;
                    old.ntx = 0;
                } else if sel == 1 {
                    old.file = r.file.wrapping_add(1);
                    old.data_pos = r.data_pos / 2 + 8;
                    old.undo_pos = 0;
                } else if sel == 2 {
                    // a data-bearing record under a key that is deleted again: must never be delivered
                    old.hash[31] ^= 0x5a;
                    old.hash[0] ^= 0xa5;
                    deleted.push(old.key());
                } else {
                    continue;
                }
                db.put(&old.key(), &old.value()).map_err(|e| format!("leveldb put: {}", e))?;
            }
            for k in [vec![b'f', 9, 0, 0, 0], vec![b'R'], vec![b'a'], vec![b'c', 1]] {
                if !self.raw_kv.iter().any(|(rk, _)| *rk == k) {
                    db.put(&k, &[1, 2, 3]).map_err(|e| format!("leveldb put: {}", e))?;
                    deleted.push(k);
                }
            }
            db.flush().map_err(|e| format!("leveldb flush: {}", e))?;
            for k in &deleted {
                db.delete(k).map_err(|e| format!("leveldb delete: {}", e))?;
            }
            db.flush().map_err(|e| format!("leveldb flush: {}", e))?;
            db.close().map_err(|e| format!("leveldb close: {}", e))?;
        }
        let nchunks = (self.ldb_reopens as usize + 1).min(kvs.len().max(1));
        let per = ((kvs.len() + nchunks - 1) / nchunks).max(1);
        let chunks: Vec<&[(Vec<u8>, Vec<u8>)]> = if kvs.is_empty() { vec![&kvs[..]] } else { kvs.chunks(per).collect() };
        for c in chunks {
            let mut db = rusty_leveldb::DB::open(path, mk_opts()).map_err(|e| format!("leveldb open: {}", e))?;
            for (k, v) in c {
                db.put(k, v).map_err(|e| format!("leveldb put: {}", e))?;
            }
            db.flush().map_err(|e| format!("leveldb flush: {}", e))?;
            if self.ldb_compact {
                let _ = db.compact_range(&[0u8], &[0xffu8; 40]);
            }
            db.close().map_err(|e| format!("leveldb close: {}", e))?;
        }
        Ok(())
    }
}

/// Reads the whole key/value content of an index directory (used by C13 to show that runs do not
/// change it). Works on a copy so that reading cannot disturb the original.
pub fn dump_index(path: &Path, scratch: &Path) -> Result<Vec<(Vec<u8>, Vec<u8>)>, String> {
    use rusty_leveldb::LdbIterator;
    let _ = std::fs::remove_dir_all(scratch);
    std::fs::create_dir_all(scratch).map_err(|e| e.to_string())?;
    for e in std::fs::read_dir(path).map_err(|e| e.to_string())? {
        let e = e.map_err(|e| e.to_string())?;
        std::fs::copy(e.path(), scratch.join(e.file_name())).map_err(|e| e.to_string())?;
    }
    let mut db = rusty_leveldb::DB::open(scratch, rusty_leveldb::Options::default()).map_err(|e| e.to_string())?;
    let mut it = db.new_iter().map_err(|e| e.to_string())?;
    let mut out = Vec::new();
    let (mut k, mut v) = (vec![], vec![]);
    while it.advance() {
        it.current(&mut k, &mut v);
        out.push((k.clone(), v.clone()));
    }
    drop(it);
    let _ = db.close();
    let _ = std::fs::remove_dir_all(scratch);
    Ok(out)
}

/// Convenience: canonical single-file layout of a built chain (file 0, blocks in chain order).
pub fn canonical_plan(coin: Coin, blocks: &[(u64, crate::chain::Block)]) -> Plan {
    let mut plan = Plan::default();
    let mut segs = Vec::new();
    for (i, (h, b)) in blocks.iter().enumerate() {
        plan.recs.push(rec_for(b, *h, VALID_SCRIPTS | HAVE_DATA | HAVE_UNDO));
        segs.push(Seg::Blk { bytes: b.ser(), rec: Some(i), magic: coin.magic() });
    }
    plan.files.push(PFile { number: 0, name: blk_name(0, 5), segs, linked: false });
    plan
}

pub fn rec_for(b: &crate::chain::Block, height: u64, status: u64) -> Rec {
    Rec { hash: b.hash(), client_version: 270000, height, status, ntx: b.txs.len() as u64, file: 0, data_pos: 0, undo_pos: 8 + (height % 1000) * 7, header: b.header() }
}

pub fn self_test() {
    // vectors from Bitcoin Core's serialize.h comment
    let cases: [(u64, &str); 9] = [(0, "00"), (1, "01"), (127, "7f"), (128, "8000"), (255, "807f"), (256, "8100"), (16383, "fe7f"), (16384, "ff00"), (16511, "ff7f")];
    for (n, h) in cases {
        let mut v = Vec::new();
        core_varint(n, &mut v);
        assert_eq!(crate::hashes::hex(&v), h, "varint {}", n);
    }
    let mut v = Vec::new();
    core_varint(65535, &mut v);
    assert_eq!(crate::hashes::hex(&v), "82fe7f");
    let mut v = Vec::new();
    core_varint(1 << 32, &mut v);
    assert_eq!(crate::hashes::hex(&v), "8efefeff00");
}
