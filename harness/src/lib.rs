//! Reference model, generators and driver shared by the verification engines.
pub mod chain;
pub mod datadir;
pub mod enc;
pub mod engine;
pub mod gen;
pub mod hashes;
pub mod layout;
pub mod parse;
pub mod oracle;
pub mod render;
pub mod run;
pub mod script;
pub mod spec;

/// Start-up self tests of the trusted pieces of the model (hash vectors, BIP vectors, genesis
/// blocks, VarInt vectors). A failure here is an infrastructure error, never a violation.
pub fn self_test() {
    hashes::self_test();
    enc::self_test();
    chain::self_test();
    script::self_test();
    datadir::self_test();
}
