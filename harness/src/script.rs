//! Reference script models, written from the statements of C05 / C06 / C16, the Bitcoin script
//! documentation and BIPs 13/16/141/173/350/341 - never from /repo/src.
use crate::chain::Coin;
use crate::enc::{base58check, segwit_addr};
use crate::hashes::hash160;
use serde::{Deserialize, Serialize};

#[derive(Clone, Copy, Debug, PartialEq, Eq, Hash, PartialOrd, Ord, Serialize, Deserialize)]
pub enum SType {
    OpReturn,
    Unspendable,
    P2PK,
    P2PKH,
    P2SH,
    P2WPKH,
    P2WSH,
    P2TR,
    WitnessProgram,
    Multisig,
    NotRecognised,
}

impl SType {
    /// label used by the simplestats report (`{:?}` of the tool's pattern; OP_RETURN payload stripped)
    pub fn report_name(self) -> &'static str {
        match self {
            SType::OpReturn => "OpReturn(\"\")",
            SType::Unspendable => "Unspendable",
            SType::P2PK => "Pay2PublicKey",
            SType::P2PKH => "Pay2PublicKeyHash",
            SType::P2SH => "Pay2ScriptHash",
            SType::P2WPKH => "Pay2WitnessPublicKeyHash",
            SType::P2WSH => "Pay2WitnessScriptHash",
            SType::P2TR => "Pay2Taproot",
            SType::WitnessProgram => "WitnessProgram",
            SType::Multisig => "Pay2MultiSig",
            SType::NotRecognised => "NotRecognised",
        }
    }
    pub fn from_report_name(s: &str) -> Option<SType> {
        use SType::*;
        for t in [OpReturn, Unspendable, P2PK, P2PKH, P2SH, P2WPKH, P2WSH, P2TR, WitnessProgram, Multisig, NotRecognised] {
            if t.report_name() == s {
                return Some(t);
            }
        }
        None
    }
}

#[derive(Clone, Debug, PartialEq, Eq)]
pub enum Tok {
    /// non-push opcode, or a push of zero bytes (kept as its opcode)
    Op(u8),
    /// push with data; second field = push opcode form (0 direct, 1/2/4 = PUSHDATA1/2/4)
    Data(Vec<u8>, u8),
}

pub fn is_nop(op: u8) -> bool {
    op == 0x61 || (0xb0..=0xb9).contains(&op)
}

/// first-opcode classes that make a script provably unspendable (Appendix C of DESIGN.md)
pub fn is_unspendable_first(op: u8) -> bool {
    matches!(op, 0x6a | 0x50 | 0x62 | 0x89 | 0x8a | 0x65 | 0x66 | 0x7e..=0x81 | 0x83..=0x86 | 0x8d | 0x8e | 0x95..=0x99)
        || op >= 0xba
}

/// Bitcoin push-rule tokeniser. `None` = a push (or its length field) runs past the end.
/// `drop_nops`: no-op opcodes are not reported as tokens (fork-coin rule of C06).
pub fn tokenize(s: &[u8], drop_nops: bool) -> Option<Vec<Tok>> {
    let n = s.len();
    let mut ip = 0usize;
    let mut toks = Vec::new();
    while ip < n {
        let op = s[ip];
        ip += 1;
        let (len, form): (Option<usize>, u8) = match op {
            0x00..=0x4b => (Some(op as usize), 0),
            0x4c => {
                if ip + 1 > n {
                    return None;
                }
                let l = s[ip] as usize;
                ip += 1;
                (Some(l), 1)
            }
            0x4d => {
                if ip + 2 > n {
                    return None;
                }
                let l = u16::from_le_bytes([s[ip], s[ip + 1]]) as usize;
                ip += 2;
                (Some(l), 2)
            }
            0x4e => {
                if ip + 4 > n {
                    return None;
                }
                let l = u32::from_le_bytes([s[ip], s[ip + 1], s[ip + 2], s[ip + 3]]) as usize;
                ip += 4;
                (Some(l), 4)
            }
            _ => (None, 0),
        };
        match len {
            Some(0) => toks.push(Tok::Op(op)),
            Some(l) => {
                if ip + l > n {
                    return None;
                }
                toks.push(Tok::Data(s[ip..ip + l].to_vec(), form));
                ip += l;
            }
            None => {
                if !(drop_nops && is_nop(op)) {
                    toks.push(Tok::Op(op));
                }
            }
        }
    }
    Some(toks)
}

/// If `s` is OP_RETURN followed by exactly one data push (direct or PUSHDATA1/2/4, possibly of
/// zero bytes) and nothing else, returns the pushed payload (C16's domain).
pub fn op_return_single_push(s: &[u8]) -> Option<Vec<u8>> {
    if s.first() != Some(&0x6a) {
        return None;
    }
    let toks = tokenize(&s[1..], false)?;
    if toks.len() != 1 {
        return None;
    }
    match &toks[0] {
        Tok::Data(d, _) => Some(d.clone()),
        Tok::Op(op) if matches!(*op, 0x00 | 0x4c | 0x4d | 0x4e) => Some(Vec::new()),
        _ => None,
    }
}

/// Expectation for Bitcoin / testnet3 (three-valued: `types` lists every acceptable type;
/// the address is always determined).
#[derive(Clone, Debug, PartialEq, Eq)]
pub struct BtcExpect {
    pub types: Vec<SType>,
    pub address: Option<String>,
    /// true when the script is a canonical template or a near miss (used for non-triviality)
    pub templateish: bool,
}

fn exact(t: SType, address: Option<String>) -> BtcExpect {
    BtcExpect { types: vec![t], address, templateish: true }
}

pub fn btc_expect(s: &[u8], testnet: bool) -> BtcExpect {
    let mut e = btc_expect_inner(s, testnet);
    // Bitcoin's own notion of 'provably unspendable' (CScript::IsUnspendable) also covers scripts
    // longer than MAX_SCRIPT_SIZE = 10 000 bytes; the statement does not say which notion it means,
    // so for such scripts 'Unspendable' is accepted besides the type the other rules give. No
    // address-bearing template is that long, so the address expectation (none) is unaffected.
    if s.len() > 10_000 && e.address.is_none() && !e.types.contains(&SType::Unspendable) {
        e.types.push(SType::Unspendable);
    }
    e
}

fn btc_expect_inner(s: &[u8], testnet: bool) -> BtcExpect {
    let (pkh_ver, sh_ver, hrp) = if testnet { (0x6fu8, 0xc4u8, "tb") } else { (0x00u8, 0x05u8, "bc") };
    let n = s.len();
    if n == 0 {
        return BtcExpect { types: vec![SType::NotRecognised], address: None, templateish: false };
    }
    if s[0] == 0x6a {
        // OP_RETURN: data carrier when followed by pushes only; otherwise the statement does not say
        // whether it is "OP_RETURN" or "provably unspendable" -> both accepted
        let pushes_only = match tokenize(&s[1..], false) {
            Some(t) => t.iter().all(|x| match x {
                Tok::Data(..) => true,
                Tok::Op(op) => *op <= 0x60 && *op != 0x50,
            }),
            None => false,
        };
        let types = if pushes_only { vec![SType::OpReturn] } else { vec![SType::OpReturn, SType::Unspendable] };
        return BtcExpect { types, address: None, templateish: true };
    }
    if is_unspendable_first(s[0]) {
        return BtcExpect { types: vec![SType::Unspendable], address: None, templateish: false };
    }
    // P2PK
    if (n == 35 && s[0] == 0x21 && s[34] == 0xac) || (n == 67 && s[0] == 0x41 && s[66] == 0xac) {
        let key = &s[1..n - 1];
        return exact(SType::P2PK, Some(base58check(pkh_ver, &hash160(key))));
    }
    // P2PKH
    if n == 25 && s[0] == 0x76 && s[1] == 0xa9 && s[2] == 0x14 && s[23] == 0x88 && s[24] == 0xac {
        return exact(SType::P2PKH, Some(base58check(pkh_ver, &s[3..23])));
    }
    // P2SH
    if n == 23 && s[0] == 0xa9 && s[1] == 0x14 && s[22] == 0x87 {
        return exact(SType::P2SH, Some(base58check(sh_ver, &s[2..22])));
    }
    // witness programs (BIP141): 4..=42 bytes, version opcode, one direct push of 2..=40 bytes
    if (4..=42).contains(&n) && (s[0] == 0x00 || (0x51..=0x60).contains(&s[0])) && (2..=40).contains(&s[1]) && s[1] as usize == n - 2 {
        let ver = if s[0] == 0 { 0u8 } else { s[0] - 0x50 };
        let prog = &s[2..];
        return match (ver, prog.len()) {
            (0, 20) => exact(SType::P2WPKH, Some(segwit_addr(hrp, 0, prog))),
            (0, 32) => exact(SType::P2WSH, Some(segwit_addr(hrp, 0, prog))),
            (0, _) => BtcExpect { types: vec![SType::WitnessProgram, SType::NotRecognised], address: None, templateish: true },
            (1, 32) => exact(SType::P2TR, Some(segwit_addr(hrp, 1, prog))),
            (v, _) => exact(SType::WitnessProgram, Some(segwit_addr(hrp, v, prog))),
        };
    }
    // bare multisig: OP_m <k pushes> OP_n OP_CHECKMULTISIG, 1 <= m <= n == k <= 16
    if let Some(t) = tokenize(s, false) {
        if t.len() >= 4 {
            if let (Tok::Op(m), Tok::Op(nn), Tok::Op(0xae)) = (&t[0], &t[t.len() - 2], &t[t.len() - 1]) {
                if (0x51..=0x60).contains(m) && (0x51..=0x60).contains(nn) {
                    let keys = &t[1..t.len() - 2];
                    let k = keys.len();
                    let all_push = keys.iter().all(|x| matches!(x, Tok::Data(..) | Tok::Op(0x00) | Tok::Op(0x4c) | Tok::Op(0x4d) | Tok::Op(0x4e)));
                    let canonical_keys = keys.iter().all(|x| matches!(x, Tok::Data(d, 0) if d.len() == 33 || d.len() == 65));
                    let mm = (*m - 0x50) as usize;
                    let nv = (*nn - 0x50) as usize;
                    if all_push && nv == k && mm <= k {
                        let types = if canonical_keys { vec![SType::Multisig] } else { vec![SType::Multisig, SType::NotRecognised] };
                        return BtcExpect { types, address: None, templateish: true };
                    }
                }
            }
        }
    }
    BtcExpect { types: vec![SType::NotRecognised], address: None, templateish: false }
}

/// Round-trip check of C05, independent of the classifier: a reported address must carry the
/// network's prefix, a valid checksum, and decode to the hash / witness program in the script.
pub fn btc_address_roundtrip(s: &[u8], testnet: bool, addr: &str) -> Result<(), String> {
    let (pkh_ver, sh_ver, hrp) = if testnet { (0x6fu8, 0xc4u8, "tb") } else { (0x00u8, 0x05u8, "bc") };
    if let Some((ver, payload)) = crate::enc::base58check_decode(addr) {
        let n = s.len();
        if ver == pkh_ver {
            if n == 25 && s[0] == 0x76 && s[1] == 0xa9 && s[2] == 0x14 {
                if payload == s[3..23] {
                    return Ok(());
                }
                return Err("P2PKH address does not decode to the hash in the script".into());
            }
            if (n == 35 || n == 67) && s[0] as usize == n - 2 {
                if payload == hash160(&s[1..n - 1]) {
                    return Ok(());
                }
                return Err("P2PK address does not decode to HASH160(key)".into());
            }
            return Err("P2PKH-form address on a script that embeds neither key nor key hash".into());
        }
        if ver == sh_ver {
            if n == 23 && s[0] == 0xa9 && s[1] == 0x14 && payload == s[2..22] {
                return Ok(());
            }
            return Err("P2SH address does not decode to the hash in the script".into());
        }
        return Err(format!("Base58Check address with foreign version byte {:#x}", ver));
    }
    if let Some((h, ver, prog)) = crate::enc::segwit_decode(addr) {
        if h != hrp {
            return Err(format!("segwit address with foreign HRP {}", h));
        }
        let n = s.len();
        let sver = if n > 0 && s[0] == 0 { Some(0u8) } else if n > 0 && (0x51..=0x60).contains(&s[0]) { Some(s[0] - 0x50) } else { None };
        if n >= 4 && sver == Some(ver) && s[1] as usize == n - 2 && prog == s[2..] {
            return Ok(());
        }
        return Err("segwit address does not decode to the witness program in the script".into());
    }
    Err("address has no valid Base58Check or Bech32(m) checksum".into())
}

/// Strict expectation for the six fork coins (C06).
#[derive(Clone, Debug, PartialEq, Eq)]
pub struct ForkExpect {
    pub stype: SType,
    pub address: Option<String>,
    /// OP_RETURN-data payload, lossily decoded
    pub payload: Option<String>,
    /// contains PUSHDATA1/2/4, a NOP, or is a template (non-triviality)
    pub interesting: bool,
}

pub fn fork_expect(s: &[u8], coin_version: u8) -> ForkExpect {
    let none = |interesting| ForkExpect { stype: SType::NotRecognised, address: None, payload: None, interesting };
    let has_nop_or_pushdata = {
        match tokenize(s, false) {
            Some(t) => t.iter().any(|x| match x {
                Tok::Op(op) => is_nop(*op) || matches!(*op, 0x4c | 0x4d | 0x4e),
                Tok::Data(_, f) => *f != 0,
            }),
            None => true,
        }
    };
    let toks = match tokenize(s, true) {
        Some(t) => t,
        None => return none(has_nop_or_pushdata),
    };
    use Tok::*;
    match toks.as_slice() {
        [Op(0x76), Op(0xa9), Data(h, _), Op(0x88), Op(0xac)] => ForkExpect { stype: SType::P2PKH, address: Some(base58check(coin_version, h)), payload: None, interesting: true },
        [Data(k, _), Op(0xac)] => ForkExpect { stype: SType::P2PK, address: Some(base58check(coin_version, &hash160(k))), payload: None, interesting: true },
        [Op(0xa9), Data(h, _), Op(0x87)] => ForkExpect { stype: SType::P2SH, address: Some(base58check(0x05, h)), payload: None, interesting: true },
        [Op(0x6a), Data(d, _)] => ForkExpect { stype: SType::OpReturn, address: None, payload: Some(String::from_utf8_lossy(d).into_owned()), interesting: true },
        [Op(0x52), Data(..), Data(..), Data(..), Op(0x53), Op(0xae)] => ForkExpect { stype: SType::Multisig, address: None, payload: None, interesting: true },
        _ => none(has_nop_or_pushdata),
    }
}

/// One-stop expectation for whole-program oracles: exact type (if the model fixes one), address.
pub struct OutExpect {
    pub types: Vec<SType>,
    pub address: Option<String>,
}

pub fn expect_for(coin: Coin, s: &[u8]) -> OutExpect {
    if coin.is_btc() {
        let e = btc_expect(s, coin == Coin::Testnet3);
        OutExpect { types: e.types, address: e.address }
    } else {
        let e = fork_expect(s, coin.addr_version());
        OutExpect { types: vec![e.stype], address: e.address }
    }
}

/// Text the opreturn callback must print for this output script (C16), `None` = nothing, or
/// `Err(())` = the statement leaves it open (OP_RETURN scripts of other shapes).
pub fn opreturn_text(coin: Coin, s: &[u8]) -> Result<Option<String>, ()> {
    if coin.is_btc() {
        if s.first() != Some(&0x6a) {
            return Ok(None);
        }
        match op_return_single_push(s) {
            Some(p) => {
                if p.is_empty() {
                    return Ok(None);
                }
                match String::from_utf8(p) {
                    Ok(t) => Ok(Some(t)),
                    Err(_) => Ok(None),
                }
            }
            None => Err(()),
        }
    } else {
        let e = fork_expect(s, coin.addr_version());
        match e.stype {
            SType::OpReturn => Ok(e.payload.filter(|p| !p.is_empty())),
            _ => Ok(None),
        }
    }
}

pub fn self_test() {
    // classic vectors (from the Bitcoin wiki / BIPs; also the repository's own literals)
    let p2pkh = crate::hashes::unhex("76a91412ab8dc588ca9d5787dde7eb29569da63c3a238c88ac");
    let e = btc_expect(&p2pkh, false);
    assert_eq!(e.types, vec![SType::P2PKH]);
    assert_eq!(e.address.as_deref(), Some("12higDjoCCNXSA95xZMWUdPvXNmkAduhWv"));
    assert!(btc_address_roundtrip(&p2pkh, false, "12higDjoCCNXSA95xZMWUdPvXNmkAduhWv").is_ok());
    let p2pk = crate::hashes::unhex("41044bca633a91de10df85a63d0a24cb09783148fe0e16c92e937fc4491580c860757148effa0595a955f44078b48ba67fa198782e8bb68115da0daa8fde5301f7f9ac");
    let e = btc_expect(&p2pk, false);
    assert_eq!(e.address.as_deref(), Some("1LEWwJkDj8xriE87ALzQYcHjTmD8aqDj1f"));
    let e = fork_expect(&p2pkh, 0x30);
    assert_eq!(e.stype, SType::P2PKH);
    // PUSHDATA1 OP_RETURN of 80 bytes on a fork coin
    let mut s = vec![0x6a, 0x4c, 80];
    s.extend(std::iter::repeat(b'A').take(80));
    let e = fork_expect(&s, 0x30);
    assert_eq!(e.stype, SType::OpReturn);
    assert_eq!(e.payload.unwrap().len(), 80);
    assert_eq!(op_return_single_push(&s).unwrap().len(), 80);
    assert_eq!(fork_expect(&[0x4c, 0xff, 0x00], 0x30).stype, SType::NotRecognised);
    assert_eq!(tokenize(&[0x61, 0x00, 0x01, 0x07], true), Some(vec![Tok::Op(0), Tok::Data(vec![7], 0)]));
}
