//! proptest strategies. Every random choice of the harness is made here (so it shrinks and replays).
use crate::chain::Coin;
use crate::spec::*;
use proptest::collection::vec;
use proptest::prelude::*;
use proptest::strategy::Union;

pub type BS<T> = BoxedStrategy<T>;

#[derive(Clone, Copy, Debug, PartialEq, Eq)]
pub enum Tier {
    Quick,
    Thorough,
}

fn weighted<T: std::fmt::Debug + 'static>(items: Vec<(u32, BS<T>)>) -> BS<T> {
    Union::new_weighted(items).boxed()
}

pub fn bytes(len: impl Into<proptest::collection::SizeRange>) -> BS<Vec<u8>> {
    vec(any::<u8>(), len).boxed()
}

/// encodes a push of `d` in the given form (0 direct - only if len<=75, 1/2/4 PUSHDATAn)
pub fn push_form(d: &[u8], form: u8) -> Vec<u8> {
    let mut o = Vec::with_capacity(d.len() + 5);
    let form = match form {
        0 if d.len() <= 75 => 0,
        0 | 1 if d.len() <= 0xff => 1,
        0 | 1 | 2 if d.len() <= 0xffff => 2,
        _ => 4,
    };
    match form {
        0 => o.push(d.len() as u8),
        1 => {
            o.push(0x4c);
            o.push(d.len() as u8)
        }
        2 => {
            o.push(0x4d);
            o.extend_from_slice(&(d.len() as u16).to_le_bytes())
        }
        _ => {
            o.push(0x4e);
            o.extend_from_slice(&(d.len() as u32).to_le_bytes())
        }
    }
    o.extend_from_slice(d);
    o
}

pub fn any_form() -> BS<u8> {
    weighted(vec![(6, Just(0u8).boxed()), (2, Just(1u8).boxed()), (1, Just(2u8).boxed()), (1, Just(4u8).boxed())])
}

/// script length classes of DESIGN section 4
pub fn len_class(tier: Tier) -> BS<usize> {
    let mut v: Vec<(u32, BS<usize>)> = vec![
        (10, (0usize..40).boxed()),
        (2, Just(0usize).boxed()),
        (2, Just(1usize).boxed()),
        (2, Just(75usize).boxed()),
        (2, Just(76usize).boxed()),
        (2, Just(0xfcusize).boxed()),
        (2, Just(0xfdusize).boxed()),
        (1, Just(255usize).boxed()),
        (1, Just(256usize).boxed()),
        (1, Just(520usize).boxed()),
        (1, (521usize..3000).boxed()),
        (1, Just(10_000usize).boxed()),
        (1, prop_oneof![Just(10_001usize), 10_001usize..12_000].boxed()),
    ];
    if tier == Tier::Thorough {
        v.push((1, Just(0xffffusize).boxed()));
        v.push((1, Just(0x10000usize).boxed()));
        v.push((1, Just(100_000usize).boxed()));
    }
    weighted(v)
}

/// count classes (inputs / outputs / txs) of DESIGN section 4
pub fn count_class(tier: Tier, max_common: usize) -> BS<usize> {
    let mut v: Vec<(u32, BS<usize>)> = vec![
        (12, Just(1usize).boxed()),
        (8, Just(2usize).boxed()),
        (8, (3usize..=max_common.max(3)).boxed()),
        (1, Just(0xfcusize).boxed()),
        (1, Just(0xfdusize).boxed()),
        (1, Just(0xfeusize).boxed()),
        (1, Just(300usize).boxed()),
    ];
    if tier == Tier::Thorough {
        v.push((1, Just(0xffffusize).boxed()));
        v.push((1, Just(0x10000usize).boxed()));
    }
    weighted(v)
}

// ------------------------------------------------------------------------------------------
// scripts

fn payload(n: usize) -> BS<Vec<u8>> {
    // mostly fresh bytes; sometimes one of a few fixed payloads, so that the same hash / key occurs
    // in different templates, coins and runs (anything keyed by the payload alone must still be right)
    prop_oneof![
        20 => bytes(n),
        4 => (0u8..4).prop_map(move |k| (0..n).map(|i| (i as u8).wrapping_mul(37).wrapping_add(k.wrapping_mul(91)).wrapping_add(1)).collect::<Vec<u8>>()),
        // degenerate payloads: all zero (burn addresses: many leading zero bytes in the Base58 payload), all 0xff, zero prefix
        1 => Just(vec![0u8; n]),
        1 => Just(vec![0xffu8; n]),
        1 => bytes(n).prop_map(|mut v| { let k = v.len() / 3; for b in v.iter_mut().take(k) { *b = 0; } v }),
    ]
    .boxed()
}

/// scripts that software knows by name or treats specially: pay-to-anchor (51 02 4e73) and its neighbours, the bare
/// OP_TRUE / OP_RETURN / empty scripts, CLTV / CSV prefixed P2PKH, the genesis P2PK output, burn outputs
pub fn well_known_script() -> BS<Vec<u8>> {
    let genesis_key = crate::hashes::unhex("04678afdb0fe5548271967f1a67130b7105cd6a828e03909a67962e0ea1f61deb649f6bc3f4cef38c4f35504e51ec112de5c384df7ba0b8d578a4c702b6bf11d5f");
    let mut p2pk = vec![0x41];
    p2pk.extend(&genesis_key);
    p2pk.push(0xac);
    let with20 = |pre: &[u8], fill: u8, post: &[u8]| { let mut v = pre.to_vec(); v.extend([fill; 20]); v.extend(post); v };
    proptest::sample::select(vec![
        vec![0x51, 0x02, 0x4e, 0x73],
        vec![0x51, 0x02, 0x4e, 0x74],
        vec![0x51, 0x02, 0x73, 0x4e],
        vec![0x52, 0x02, 0x4e, 0x73],
        vec![0x00, 0x02, 0x4e, 0x73],
        vec![0x51, 0x03, 0x4e, 0x73, 0x00],
        vec![],
        vec![0x51],
        vec![0x00],
        vec![0x6a],
        vec![0x6a, 0x00],
        vec![0x6a, 0x6a],
        // scripts made of ignored no-ops only (fork coins: an empty token list)
        vec![0x61],
        vec![0xb1],
        vec![0x61, 0xb1],
        vec![0xb0, 0xb9, 0x61, 0xb2, 0xb3],
        p2pk,
        with20(&[0x76, 0xa9, 0x14], 0, &[0x88, 0xac]),
        with20(&[0xa9, 0x14], 0, &[0x87]),
        with20(&[0x00, 0x14], 0, &[]),
        with20(&[0x03, 0x40, 0x0d, 0x03, 0xb1, 0x75, 0x76, 0xa9, 0x14], 0x42, &[0x88, 0xac]),
        with20(&[0x52, 0xb2, 0x75, 0x76, 0xa9, 0x14], 0x42, &[0x88, 0xac]),
        with20(&[0xb1, 0x76, 0xa9, 0x14], 0x42, &[0x88, 0xb2, 0xac]),
    ])
    .boxed()
}

/// a real secp256k1 public key (a point on the curve) in compressed, uncompressed or hybrid
/// (prefix 06/07) encoding - implementations that decode the key must still hash the pushed bytes
pub fn real_pubkey() -> BS<Vec<u8>> {
    (any::<[u8; 32]>(), 0u8..3)
        .prop_map(|(seed, enc)| {
            use bitcoin::secp256k1::{PublicKey, Secp256k1, SecretKey};
            let secp = Secp256k1::signing_only();
            let mut s = seed;
            let sk = loop {
                match SecretKey::from_slice(&s) {
                    Ok(k) => break k,
                    Err(_) => s = crate::hashes::sha256(&s),
                }
            };
            let pk = PublicKey::from_secret_key(&secp, &sk);
            match enc {
                0 => pk.serialize().to_vec(),
                1 => pk.serialize_uncompressed().to_vec(),
                _ => {
                    let mut u = pk.serialize_uncompressed().to_vec();
                    u[0] = 0x06 | (u[64] & 1);
                    u
                }
            }
        })
        .boxed()
}

pub fn t_p2pk() -> BS<Vec<u8>> {
    prop_oneof![3 => (prop_oneof![Just(33usize), Just(65usize)]).prop_flat_map(payload), 1 => real_pubkey()].prop_map(|k| {
        let mut s = push_form(&k, 0);
        s.push(0xac);
        s
    }).boxed()
}
pub fn t_p2pkh() -> BS<Vec<u8>> {
    payload(20).prop_map(|h| {
        let mut s = vec![0x76, 0xa9];
        s.extend(push_form(&h, 0));
        s.extend([0x88, 0xac]);
        s
    }).boxed()
}
pub fn t_p2sh() -> BS<Vec<u8>> {
    payload(20).prop_map(|h| {
        let mut s = vec![0xa9];
        s.extend(push_form(&h, 0));
        s.push(0x87);
        s
    }).boxed()
}
/// witness program: version 0..=16, program length 2..=40 (or illegal lengths 0,1,41,42 when `lookalike`)
pub fn t_witness(lookalike: bool) -> BS<Vec<u8>> {
    let ver = weighted(vec![(4, Just(0u8).boxed()), (3, Just(1u8).boxed()), (2, (2u8..=16).boxed())]);
    let len: BS<usize> = if lookalike {
        prop_oneof![Just(0usize), Just(1usize), Just(41usize), Just(42usize), Just(75usize)].boxed()
    } else {
        weighted(vec![(4, Just(20usize).boxed()), (4, Just(32usize).boxed()), (2, (2usize..=40).boxed()), (1, Just(2usize).boxed()), (1, Just(40usize).boxed())])
    };
    (ver, len.prop_flat_map(payload)).prop_map(|(v, p)| {
        let mut s = vec![if v == 0 { 0 } else { 0x50 + v }];
        s.extend(push_form(&p, 0));
        s
    }).boxed()
}
/// bare multisig shapes: m, n opcodes for 0..=16 (0 encoded as OP_0), k keys, key lengths
pub fn t_multisig() -> BS<Vec<u8>> {
    let keylen = weighted(vec![(6, Just(33usize).boxed()), (3, Just(65usize).boxed()), (1, (1usize..70).boxed())]);
    let num = |v: u8| if v == 0 { 0x00u8 } else { 0x50 + v };
    (0u8..=16, 0u8..=16, prop_oneof![3 => Just(true), 1 => Just(false)], prop_oneof![4 => 1usize..=3, 2 => 4usize..=14, 1 => Just(15usize), 2 => Just(16usize), 1 => Just(17usize), 1 => Just(0usize)].prop_flat_map(move |k| vec(keylen.clone().prop_flat_map(payload), k)), any_form(), prop_oneof![8 => Just(0xaeu8), 1 => Just(0xafu8), 1 => Just(0xacu8)])
        .prop_map(move |(m, n, right_n, keys, form, last)| {
            let k = keys.len().min(16) as u8;
            let n = if right_n { k } else { n };
            // the two number slots hold OP_n opcodes; sometimes (selected by bits of `last`'s generator sibling `m` / `n`
            // parity with `form`) a slot holds the number as pushed DATA instead, which is not the template
            let slot = |v: u8, sel: u8| -> Vec<u8> {
                match sel % 16 {
                    1 => vec![0x01, v],
                    2 => vec![0x02, v, 0x00],
                    3 => vec![0x4c, 0x01, v],
                    _ => vec![num(v)],
                }
            };
            let mut s = slot(m, form.wrapping_mul(7).wrapping_add(m));
            for (i, key) in keys.iter().enumerate() {
                s.extend(push_form(key, if i == 0 { form } else { 0 }));
            }
            s.extend(slot(n, form.wrapping_mul(5).wrapping_add(n).wrapping_add(3)));
            s.push(last);
            s
        }).boxed()
}
pub fn t_multisig_2of3() -> BS<Vec<u8>> {
    (vec(prop_oneof![Just(33usize), Just(65usize), 1usize..80].prop_flat_map(payload), 3), any_form()).prop_map(|(keys, form)| {
        let mut s = vec![0x52];
        for (i, k) in keys.iter().enumerate() {
            s.extend(push_form(k, if i == 1 { form } else { 0 }));
        }
        s.extend([0x53, 0xae]);
        s
    }).boxed()
}

#[derive(Clone, Copy, Debug, PartialEq, Eq)]
pub enum PayClass {
    Whitespace,
    Ascii,
    MultiByte,
    Invalid,
    Empty,
    Newline,
    /// starts with a marker that real chains use inside OP_RETURN outputs (segwit commitment, Omni, RSK, ...)
    Marker,
}

fn utf8_multibyte(n: usize) -> BS<Vec<u8>> {
    // arbitrary scalar values plus the code points at the UTF-8 width boundaries and the ones that
    // have a special meaning to decoders (U+FFFD replacement character, BOM, NUL, DEL)
    let special = proptest::sample::select(vec!['\u{fffd}', '\u{feff}', '\u{0}', '\u{7f}', '\u{80}', '\u{7ff}', '\u{800}', '\u{ffff}', '\u{10000}', '\u{10ffff}', '\u{e9}', '\u{4e2d}', '\u{1f600}', '\u{df}']);
    vec(prop_oneof![3 => special, 3 => any::<char>(), 2 => proptest::char::range('a', 'z')], 1..=n.max(1))
        .prop_map(|v| v.into_iter().filter(|c| *c != '\n' && *c != '\r').collect::<String>().into_bytes())
        .prop_map(|v| if v.is_empty() { "\u{fffd}".as_bytes().to_vec() } else { v })
        .boxed()
}

/// OP_RETURN payloads by class. Never contains a byte sequence that looks like a log line prefix.
pub fn opreturn_payload(tier: Tier) -> BS<(PayClass, Vec<u8>)> {
    let maxlen = if tier == Tier::Thorough { 5000usize } else { 700 };
    // lengths incl. payloads that make the whole script longer than 10 000 bytes (Bitcoin's MAX_SCRIPT_SIZE) and than 64 KiB
    let alen = weighted(vec![(60, (1usize..=75).boxed()), (30, (76usize..=80).boxed()), (20, (81usize..=255).boxed()), (10, Just(255usize).boxed()), (10, Just(256usize).boxed()), (10, (257usize..=maxlen).boxed()), (3, (9_990usize..=10_010).boxed()), (1, Just(12_000usize).boxed()), (1, Just(70_000usize).boxed())]);
    let ascii = alen.clone().prop_flat_map(|n| vec(0x20u8..0x7f, n)).prop_map(|v| (PayClass::Ascii, v));
    let multi = (1usize..120).prop_flat_map(utf8_multibyte).prop_map(|v| (PayClass::MultiByte, v));
    let invalid = alen.prop_flat_map(|n| vec(any::<u8>(), n)).prop_map(|mut v| {
        // force an invalid sequence
        v[0] = 0xff;
        (PayClass::Invalid, v)
    });
    let empty = Just((PayClass::Empty, Vec::new()));
    let newline = vec(prop_oneof![4 => 0x20u8..0x7f, 1 => Just(b'\n')], 2..100).prop_map(|mut v| {
        v[0] = b'x';
        let l = v.len() - 1;
        v[l / 2] = b'\n';
        v[l] = b'y';
        (PayClass::Newline, v)
    });
    // payloads made of white space only (they are non-empty and must be printed)
    let blank = vec(proptest::sample::select(vec![" ", "\t", "\u{3000}", "\u{a0}", "\u{2028}", "\u{b}", "\u{c}", "\u{85}", "\u{feff}"]), 1..6).prop_map(|v| (PayClass::Whitespace, v.concat().into_bytes()));
    // well-known protocol markers followed by binary or text data: the BIP141 witness commitment (aa21a9ed + 32 bytes,
    // 36 bytes in all), merge-mining and token protocol tags; nothing in the statement treats them specially
    let marker = (proptest::sample::select(vec![&[0xaau8, 0x21, 0xa9, 0xed][..], b"omni", b"RSKBLOCK:", b"DOCPROOF", b"EW", b"id", b"SPK", b"\xfa\xbe\x6d\x6d", b"CC", b"Bitcoin: ", b"OA\x01\x00"]), prop_oneof![3 => Just(32usize), 1 => Just(34usize), 2 => 0usize..60], any::<bool>())
        .prop_flat_map(|(m, n, text)| (Just(m), if text { vec(0x20u8..0x7f, n).boxed() } else { vec(any::<u8>(), n).boxed() }))
        .prop_map(|(m, tail)| { let mut v = m.to_vec(); v.extend(tail); (PayClass::Marker, v) });
    weighted(vec![(5, ascii.boxed()), (3, multi.boxed()), (3, invalid.boxed()), (1, empty.boxed()), (2, newline.boxed()), (1, blank.boxed()), (2, marker.boxed())])
        .prop_map(|(c, v)| {
            // a payload must not look like a log line ("[hh:mm:ss] LEVEL - target: ")
            let s = String::from_utf8_lossy(&v);
            if s.contains("] INFO - ") || s.contains("] WARN - ") || s.contains("] DEBUG - ") || s.contains("] TRACE - ") {
                (PayClass::Ascii, b"log-lookalike-removed".to_vec())
            } else {
                (c, v)
            }
        })
        .boxed()
}

/// OP_RETURN followed by exactly one push (C16's domain)
pub fn t_opreturn_single(tier: Tier) -> BS<Vec<u8>> {
    (opreturn_payload(tier), any_form()).prop_map(|((_, p), form)| {
        let mut s = vec![0x6a];
        if p.is_empty() {
            s.extend(match form {
                0 => vec![0x00],
                1 => vec![0x4c, 0],
                2 => vec![0x4d, 0, 0],
                _ => vec![0x4e, 0, 0, 0, 0],
            });
        } else {
            s.extend(push_form(&p, form));
        }
        s
    }).boxed()
}

/// any canonical template
pub fn template(tier: Tier) -> BS<Vec<u8>> {
    weighted(vec![
        (3, t_p2pk()),
        (3, t_p2pkh()),
        (3, t_p2sh()),
        (4, t_witness(false)),
        (1, t_witness(true)),
        (3, t_multisig()),
        (2, t_multisig_2of3()),
        (3, t_opreturn_single(tier)),
        (1, well_known_script()),
    ])
}

/// template with every push replaced by a chosen push form (fork-coin slots accept any form)
pub fn template_any_push(tier: Tier) -> BS<Vec<u8>> {
    let pk = (prop_oneof![Just(33usize), Just(65usize), 1usize..90, Just(76usize), Just(256usize)].prop_flat_map(payload), any_form()).prop_map(|(k, f)| {
        let mut s = push_form(&k, f);
        s.push(0xac);
        s
    });
    let pkh = (prop_oneof![4 => Just(20usize), 1 => 1usize..80].prop_flat_map(payload), any_form()).prop_map(|(h, f)| {
        let mut s = vec![0x76, 0xa9];
        s.extend(push_form(&h, f));
        s.extend([0x88, 0xac]);
        s
    });
    let sh = (prop_oneof![4 => Just(20usize), 1 => 1usize..80].prop_flat_map(payload), any_form()).prop_map(|(h, f)| {
        let mut s = vec![0xa9];
        s.extend(push_form(&h, f));
        s.push(0x87);
        s
    });
    weighted(vec![(3, pk.boxed()), (3, pkh.boxed()), (3, sh.boxed()), (3, t_opreturn_single(tier)), (2, t_multisig_2of3())])
}

#[derive(Clone, Debug)]
enum Mutation {
    Subst(u16, u8),
    Truncate(u16),
    Extend(u8),
    InsertNop(u16, u8),
    ZeroLenPush(u16, u8),
    /// pad with `n` no-op opcodes at a token boundary (Bitcoin's 201-opcode limit is not a template rule)
    PadNops(u16, u8, u16),
    /// a run of 1..12 further tokens (opcodes, zero-length and short pushes) at a token boundary - mostly in front of
    /// or behind the whole template: a template must match the WHOLE token sequence, however long
    InsertTokens(u16, Vec<u8>),
    /// a Namecoin name operation in front of the script (NAME_NEW: OP_1 <hash> OP_2DROP; NAME_FIRSTUPDATE: OP_2 <name>
    /// <rand> <value> OP_2DROP OP_2DROP; NAME_UPDATE: OP_3 <name> <value> OP_2DROP OP_DROP; and near misses): real
    /// Namecoin outputs look like this - by the template rules they are not P2PKH / P2SH / ... outputs
    NamePrefix(u8, Vec<u8>),
}

fn mutation() -> BS<Mutation> {
    prop_oneof![
        4 => (any::<u16>(), any::<u8>()).prop_map(|(p, b)| Mutation::Subst(p, b)),
        2 => any::<u16>().prop_map(Mutation::Truncate),
        2 => any::<u8>().prop_map(Mutation::Extend),
        3 => (any::<u16>(), prop_oneof![Just(0x61u8), 0xb0u8..=0xb9]).prop_map(|(p, b)| Mutation::InsertNop(p, b)),
        1 => (any::<u16>(), prop_oneof![Just(0x00u8), Just(0x4cu8), Just(0x4du8), Just(0x4eu8)]).prop_map(|(p, b)| Mutation::ZeroLenPush(p, b)),
        1 => (any::<u16>(), prop_oneof![Just(0x61u8), 0xb0u8..=0xb9], prop_oneof![2 => 2u16..40, 1 => 190u16..210, 1 => 210u16..600]).prop_map(|(p, b, n)| Mutation::PadNops(p, b, n)),
        1 => (0u8..8, vec(any::<u8>(), 1..24)).prop_map(|(k, d)| Mutation::NamePrefix(k, d)),
        2 => (prop_oneof![3 => Just(0u16), 3 => Just(u16::MAX), 1 => any::<u16>()], vec(prop_oneof![
                3 => Just(vec![0x00u8]),
                3 => proptest::sample::select(vec![0x51u8, 0x52, 0x53, 0x60, 0x75, 0x76, 0x87, 0x88, 0xa9, 0xac, 0xae, 0x6a, 0x4f]).prop_map(|o| vec![o]),
                2 => vec(any::<u8>(), 1..4).prop_map(|d| { let mut v = vec![d.len() as u8]; v.extend(d); v }),
                1 => Just(vec![0x4cu8, 0x01, 0xaa]),
            ], 1..12)).prop_map(|(p, toks)| Mutation::InsertTokens(p, toks.concat())),
    ].boxed()
}

/// token boundaries of a script (positions where an opcode starts), by the model tokeniser rules
fn boundaries(s: &[u8]) -> Vec<usize> {
    let mut v = vec![];
    let mut ip = 0;
    while ip < s.len() {
        v.push(ip);
        let op = s[ip];
        ip += 1;
        let l = match op {
            1..=0x4b => op as usize,
            0x4c if ip < s.len() => {
                ip += 1;
                s[ip - 1] as usize
            }
            0x4d if ip + 1 < s.len() => {
                ip += 2;
                u16::from_le_bytes([s[ip - 2], s[ip - 1]]) as usize
            }
            0x4e if ip + 3 < s.len() => {
                ip += 4;
                u32::from_le_bytes([s[ip - 4], s[ip - 3], s[ip - 2], s[ip - 1]]) as usize
            }
            _ => 0,
        };
        ip = ip.saturating_add(l);
    }
    v.push(s.len());
    v
}

fn apply_mutation(mut s: Vec<u8>, m: &Mutation) -> Vec<u8> {
    match m {
        Mutation::Subst(p, b) => {
            if !s.is_empty() {
                let i = mono(*p, s.len());
                s[i] = *b;
            }
        }
        Mutation::Truncate(p) => {
            let l = mono(*p, s.len() + 1);
            s.truncate(l);
        }
        Mutation::Extend(b) => s.push(*b),
        Mutation::InsertNop(p, b) => {
            let bd = boundaries(&s);
            let at = bd[mono(*p, bd.len())].min(s.len());
            s.insert(at, *b);
        }
        Mutation::PadNops(p, b, n) => {
            let bd = boundaries(&s);
            let at = bd[mono(*p, bd.len())].min(s.len());
            let tail = s.split_off(at);
            s.extend(std::iter::repeat(*b).take(*n as usize));
            s.extend(tail);
        }
        Mutation::NamePrefix(kind, d) => {
            let push = |v: &[u8]| { let mut o = vec![v.len() as u8]; o.extend(v); o };
            let pre: Vec<u8> = match kind {
                0 => [vec![0x51], push(d), vec![0x6d]].concat(),
                1 => [vec![0x52], push(d), push(&d[..1]), push(d), vec![0x6d, 0x6d]].concat(),
                2 => [vec![0x53], push(d), push(d), vec![0x6d, 0x75]].concat(),
                3 => [vec![0x51], push(d), vec![0x75]].concat(),
                4 => [vec![0x53], push(d), push(d), vec![0x75, 0x75]].concat(),
                5 => [vec![0x52], push(d), push(d), push(d), vec![0x6d, 0x75]].concat(),
                6 => [vec![0x51], push(d), push(d), vec![0x6d]].concat(),
                _ => [vec![0x54], push(d), vec![0x6d, 0x75]].concat(),
            };
            let tail = std::mem::take(&mut s);
            s = pre;
            s.extend(tail);
        }
        Mutation::InsertTokens(p, toks) => {
            let bd = boundaries(&s);
            let at = bd[mono(*p, bd.len())].min(s.len());
            let tail = s.split_off(at);
            s.extend(toks);
            s.extend(tail);
        }
        Mutation::ZeroLenPush(p, b) => {
            let bd = boundaries(&s);
            let at = bd[mono(*p, bd.len())].min(s.len());
            let ins: Vec<u8> = match b {
                0x4c => vec![0x4c, 0],
                0x4d => vec![0x4d, 0, 0],
                0x4e => vec![0x4e, 0, 0, 0, 0],
                _ => vec![0],
            };
            for (k, x) in ins.iter().enumerate() {
                s.insert(at + k, *x);
            }
        }
    }
    s
}

pub fn mutated_template(tier: Tier) -> BS<Vec<u8>> {
    (prop_oneof![template(tier), template_any_push(tier)], vec(mutation(), 1..=2)).prop_map(|(mut s, ms)| {
        for m in &ms {
            s = apply_mutation(s, m);
        }
        s
    }).boxed()
}

/// every leading opcode followed by a template tail or noise
pub fn leading_opcode(tier: Tier) -> BS<Vec<u8>> {
    (any::<u8>(), prop_oneof![template(tier), bytes(0..40)]).prop_map(|(op, tail)| {
        let mut s = vec![op];
        s.extend(tail);
        s
    }).boxed()
}

#[derive(Clone, Debug)]
enum TokG {
    Op(u8),
    Push(Vec<u8>, u8),
    ZeroPush(u8),
    TruncPush(u8, u8),
    HugePushdata4(u32),
}

fn tokg() -> BS<TokG> {
    prop_oneof![
        6 => prop_oneof![3 => 0x4fu8..=0xffu8, 1 => Just(0x61u8), 1 => 0xb0u8..=0xb9u8, 1 => Just(0x6au8), 1 => Just(0xacu8), 1 => Just(0xaeu8)].prop_map(TokG::Op),
        6 => (bytes(1..40), any_form()).prop_map(|(d, f)| TokG::Push(d, f)),
        1 => (bytes(76..300), any_form()).prop_map(|(d, f)| TokG::Push(d, f)),
        2 => prop_oneof![Just(0u8), Just(1u8), Just(2u8), Just(4u8)].prop_map(TokG::ZeroPush),
        1 => (prop_oneof![Just(0u8), Just(1u8), Just(2u8), Just(4u8)], 0u8..6).prop_map(|(w, k)| TokG::TruncPush(w, k)),
        1 => any::<u32>().prop_map(TokG::HugePushdata4),
    ].boxed()
}

fn render_tokens(toks: &[TokG]) -> Vec<u8> {
    let mut s = Vec::new();
    let n = toks.len();
    for (i, t) in toks.iter().enumerate() {
        match t {
            TokG::Op(o) => s.push(*o),
            TokG::Push(d, f) => s.extend(push_form(d, *f)),
            TokG::ZeroPush(w) => s.extend(match w {
                0 => vec![0u8],
                1 => vec![0x4c, 0],
                2 => vec![0x4d, 0, 0],
                _ => vec![0x4e, 0, 0, 0, 0],
            }),
            // truncated pushes and huge PUSHDATA4 only make sense as the last token
            TokG::TruncPush(w, k) if i + 1 == n => {
                let body = vec![0xabu8; *k as usize];
                match w {
                    0 => {
                        s.push(*k + 1 + 3);
                        s.extend(&body)
                    }
                    1 => {
                        s.push(0x4c);
                        if *k > 0 {
                            s.push(*k + 7);
                            s.extend(&body[1..])
                        }
                    }
                    2 => {
                        s.push(0x4d);
                        if *k == 1 {
                            s.push(9)
                        } else if *k > 1 {
                            s.extend([*k + 9, 0]);
                            s.extend(&body[2..])
                        }
                    }
                    _ => {
                        s.push(0x4e);
                        if *k > 0 && *k < 4 {
                            s.extend(vec![1u8; *k as usize])
                        } else if *k >= 4 {
                            s.extend([*k + 9, 0, 0, 0]);
                            s.extend(&body[4..])
                        }
                    }
                }
            }
            TokG::HugePushdata4(l) if i + 1 == n => {
                s.push(0x4e);
                s.extend_from_slice(&l.to_le_bytes());
                s.extend([1, 2, 3]);
            }
            _ => s.push(0x75),
        }
    }
    s
}

pub fn token_script(tier: Tier) -> BS<Vec<u8>> {
    let n = if tier == Tier::Thorough { 60 } else { 24 };
    vec(tokg(), 0..n).prop_map(|t| render_tokens(&t)).boxed()
}

/// thousands of pushes / very long scripts (hostile class of C14)
pub fn many_pushes(tier: Tier) -> BS<Vec<u8>> {
    let maxn = if tier == Tier::Thorough { 6000usize } else { 1200 };
    (prop_oneof![Just(0x51u8), Just(0x52u8), Just(0x00u8), Just(0x6au8), Just(0x76u8)], prop_oneof![Just(255usize), Just(256usize), Just(257usize), 258usize..maxn], prop_oneof![Just(0u8), Just(1u8), Just(33u8)], vec(any::<u8>(), 0..4))
        .prop_map(|(first, n, plen, tail)| {
            let mut s = vec![first];
            for i in 0..n {
                if plen == 0 {
                    s.push(0);
                } else {
                    s.push(plen);
                    s.extend(std::iter::repeat((i & 0xff) as u8).take(plen as usize));
                }
            }
            s.extend(tail);
            s
        })
        .boxed()
}

pub fn raw_script(tier: Tier) -> BS<Vec<u8>> {
    len_class(tier).prop_flat_map(|n| bytes(n)).boxed()
}

/// Full script grammar of DESIGN section 4.
pub fn any_script(tier: Tier) -> BS<Vec<u8>> {
    weighted(vec![
        (8, template(tier)),
        (4, template_any_push(tier)),
        (8, mutated_template(tier)),
        (3, leading_opcode(tier)),
        (4, token_script(tier)),
        (1, many_pushes(tier)),
        (2, raw_script(tier)),
    ])
}

/// scripts for "ordinary" chains: mostly templates (so addresses and all types occur), some noise
pub fn ordinary_script(tier: Tier) -> BS<Vec<u8>> {
    weighted(vec![(10, template(tier)), (3, template_any_push(tier)), (3, mutated_template(tier)), (2, token_script(tier)), (1, raw_script(tier))])
}

/// scripts for C16: OP_RETURN + exactly one push, or any script that does not start with 0x6a
pub fn c16_script(tier: Tier) -> BS<Vec<u8>> {
    weighted(vec![
        (6, t_opreturn_single(tier)),
        (4, any_script(tier).prop_map(|s| if s.first() == Some(&0x6a) { vec![0x51] } else { s }).boxed()),
    ])
}

// ------------------------------------------------------------------------------------------
// transactions, blocks, chains

#[derive(Clone)]
pub struct TxCfg {
    pub tier: Tier,
    pub script: BS<Vec<u8>>,
    /// upper bound for a single output value (sums must fit u64 for summing callbacks)
    pub max_value: u64,
    pub allow_segwit: bool,
    pub big_counts: bool,
    pub max_common: usize,
    pub scriptsig_len: BS<usize>,
    pub src: BS<Src>,
}

impl TxCfg {
    pub fn new(tier: Tier, script: BS<Vec<u8>>) -> TxCfg {
        TxCfg {
            tier,
            script,
            max_value: 2_100_000_000_000_000 / 64,
            allow_segwit: true,
            big_counts: false,
            max_common: 6,
            scriptsig_len: weighted(vec![(12, (0usize..30).boxed()), (1, Just(0xfcusize).boxed()), (1, Just(0xfdusize).boxed()), (1, (100usize..600).boxed())]),
            src: default_src(),
        }
    }
}

pub fn default_src() -> BS<Src> {
    prop_oneof![8 => any::<u16>().prop_map(Src::Known), 2 => (any::<u8>(), prop_oneof![3 => 0u32..4, 1 => any::<u32>()]).prop_map(|(s, i)| Src::Unknown(s, i))].boxed()
}

pub fn value(max: u64) -> BS<u64> {
    if max == u64::MAX {
        prop_oneof![4 => any::<u64>(), 2 => 0u64..100_000, 1 => Just(0u64), 1 => Just(u64::MAX), 1 => Just(5_000_000_000u64)].boxed()
    } else {
        prop_oneof![4 => 0u64..=max, 3 => 0u64..100_000, 1 => Just(0u64), 1 => Just(5_000_000_000u64.min(max)), 1 => Just(max)].boxed()
    }
}

pub fn witness_stack() -> BS<Vec<Vec<u8>>> {
    let item_len = weighted(vec![(10, (0usize..80).boxed()), (1, Just(0xfcusize).boxed()), (1, Just(0xfdusize).boxed()), (1, (256usize..2000).boxed())]);
    let n = weighted(vec![(3, Just(0usize).boxed()), (8, (1usize..4).boxed()), (1, Just(0xfdusize).boxed())]);
    n.prop_flat_map(move |n| vec(item_len.clone().prop_flat_map(bytes), n)).boxed()
}

pub fn input(cfg: &TxCfg) -> BS<InSpec> {
    (cfg.src.clone(), cfg.scriptsig_len.clone().prop_flat_map(bytes), prop_oneof![2 => Just(0xffff_ffffu32), 1 => any::<u32>()], if cfg.allow_segwit { witness_stack() } else { Just(vec![]).boxed() })
        .prop_map(|(src, script_sig, sequence, witness)| InSpec { src, script_sig, sequence, witness })
        .boxed()
}

pub fn output(cfg: &TxCfg) -> BS<OutSpec> {
    (value(cfg.max_value), cfg.script.clone()).prop_map(|(value, script)| OutSpec { value, script }).boxed()
}

pub fn tx(cfg: &TxCfg) -> BS<TxSpec> {
    let nin = if cfg.big_counts { count_class(cfg.tier, cfg.max_common) } else { (1usize..=cfg.max_common).boxed() };
    let nout = if cfg.big_counts { count_class(cfg.tier, cfg.max_common) } else { (1usize..=cfg.max_common).boxed() };
    let i = input(cfg);
    let o = output(cfg);
    let seg = if cfg.allow_segwit { prop_oneof![2 => Just(false), 1 => Just(true)].boxed() } else { Just(false).boxed() };
    // very large vectors are expanded from one generated seed (a per-element strategy tree for
    // 65 536 elements costs proptest hundreds of MB); elements are small so that a block stays
    // within a few MB
    let max_value = cfg.max_value;
    let big_in = move |n: usize| any::<u64>().prop_map(move |seed| cheap_inputs(n, seed)).boxed();
    let big_out = move |n: usize| any::<u64>().prop_map(move |seed| cheap_outputs(n, seed, max_value)).boxed();
    (prop_oneof![Just(1u32), Just(2u32), any::<u32>()], prop_oneof![2 => Just(0u32), 1 => any::<u32>()], nin.prop_flat_map(move |n| if n >= 250 { big_in(n) } else { vec(i.clone(), n).boxed() }), nout.prop_flat_map(move |n| if n >= 250 { big_out(n) } else { vec(o.clone(), n).boxed() }), seg)
        .prop_map(|(version, locktime, inputs, outputs, segwit)| TxSpec { version, locktime, inputs, outputs, segwit, dup_of: None })
        .boxed()
}

fn splitmix(x: &mut u64) -> u64 {
    *x = x.wrapping_add(0x9e3779b97f4a7c15);
    let mut z = *x;
    z = (z ^ (z >> 30)).wrapping_mul(0xbf58476d1ce4e5b9);
    z = (z ^ (z >> 27)).wrapping_mul(0x94d049bb133111eb);
    z ^ (z >> 31)
}

/// `n` small inputs expanded deterministically from a generated seed
pub fn cheap_inputs(n: usize, seed: u64) -> Vec<InSpec> {
    let mut s = seed;
    (0..n)
        .map(|_| {
            let r = splitmix(&mut s);
            let src = if r & 3 == 0 { Src::Unknown((r >> 8) as u8, (r >> 16) as u32 & 3) } else { Src::Known((r >> 8) as u16) };
            InSpec { src, script_sig: (0..(r >> 40) & 3).map(|k| (r >> (k * 8)) as u8).collect(), sequence: if r & 4 == 0 { 0xffff_ffff } else { (r >> 24) as u32 }, witness: vec![] }
        })
        .collect()
}

/// `n` small outputs (P2PKH / P2SH / trivial / P2WPKH shapes) expanded deterministically from a generated seed
pub fn cheap_outputs(n: usize, seed: u64, max_value: u64) -> Vec<OutSpec> {
    let mut s = seed;
    (0..n)
        .map(|_| {
            let r = splitmix(&mut s);
            let h: Vec<u8> = (0..20).map(|k| (splitmix(&mut s) >> (k % 7)) as u8).collect();
            let script = match r & 7 {
                0 => vec![0x51],
                1 => {
                    let mut v = vec![0xa9, 0x14];
                    v.extend(&h);
                    v.push(0x87);
                    v
                }
                2 => {
                    let mut v = vec![0x00, 0x14];
                    v.extend(&h);
                    v
                }
                _ => {
                    let mut v = vec![0x76, 0xa9, 0x14];
                    v.extend(&h);
                    v.extend([0x88, 0xac]);
                    v
                }
            };
            let value = if max_value == u64::MAX { r >> 3 } else { (r >> 3) % (max_value / 65_536).max(1) };
            OutSpec { value, script }
        })
        .collect()
}

pub fn coinbase(cfg: &TxCfg) -> BS<TxSpec> {
    let mut c = cfg.clone();
    c.big_counts = false;
    let o = output(&c);
    let i = input(&c);
    (prop_oneof![Just(1u32), Just(2u32), any::<u32>()], prop_oneof![3 => Just(0u32), 1 => any::<u32>()], i, vec(o, 1..=3), prop_oneof![3 => Just(false), 1 => Just(true)])
        .prop_map(|(version, locktime, input, outputs, segwit)| TxSpec { version, locktime, inputs: vec![input], outputs, segwit, dup_of: None })
        .boxed()
}

pub fn auxpow(cfg: &TxCfg) -> BS<AuxPowSpec> {
    let branch = weighted(vec![(8, Just(0u16).boxed()), (16, (1u16..12).boxed()), (4, (12u16..=40).boxed()), (2, Just(32u16).boxed()), (1, prop_oneof![Just(252u16), Just(253u16), Just(255u16), Just(256u16), Just(257u16), Just(300u16), Just(1000u16)].boxed())]);
    (coinbase(cfg), any::<u8>(), branch.clone(), any::<u32>(), branch, any::<u32>())
        .prop_map(|(coinbase, seed, cb_branch_len, cb_mask, chain_branch_len, chain_mask)| AuxPowSpec { coinbase, seed, cb_branch_len, cb_mask, chain_branch_len, chain_mask })
        .boxed()
}

/// block versions: ordinary values, and - for AuxPoW coins - values around the threshold
pub fn block_version(coin: Coin) -> BS<u32> {
    match coin.auxpow_threshold() {
        Some(th) => prop_oneof![
            3 => prop_oneof![Just(1u32), Just(2u32), Just(4u32), Just(0x100u32)],
            2 => Just(th - 1),
            3 => Just(th),
            2 => Just(th + 1),
            2 => th..=0x7fff_ffffu32,
            1 => 0x8000_0000u32..=u32::MAX,
            1 => 0u32..th,
            // structured versions: a 3-bit top pattern (BIP9's 001 among them) over a low part below, at or just above the threshold
            2 => (0u32..8, prop_oneof![2 => 0u32..th, 1 => Just(0u32), 1 => Just(th - 1), 1 => Just(th), 2 => th..2 * th]).prop_map(|(top, low)| (top << 29) | low),
        ].boxed(),
        None => prop_oneof![
            4 => prop_oneof![Just(1u32), Just(2u32), Just(4u32), Just(0x2000_0000u32)],
            1 => Just(0x10101u32),
            1 => Just(0x620102u32),
            1 => Just(0x620103u32),
            2 => any::<u32>(),
        ].boxed(),
    }
}

#[derive(Clone)]
pub struct ChainCfg {
    pub tx: TxCfg,
    pub coin: BS<Coin>,
    pub nblocks: BS<usize>,
    pub ntx: BS<usize>,
    pub base: BS<u64>,
    pub real_genesis: BS<bool>,
    pub time: BS<u32>,
    pub dup_coinbase: bool,
}

pub fn any_coin() -> BS<Coin> {
    proptest::sample::select(crate::chain::ALL_COINS.to_vec()).boxed()
}

pub fn monotonic_time() -> BS<u32> {
    (1_231_006_505u32..1_700_000_000).boxed()
}

/// the wall clock at process start (the only use of the clock in a generator: header times a few hours around
/// "now" are a class of their own because code may compare them with the current time; the oracles are functions
/// of the data alone, and a replay file records the concrete values)
pub fn now_epoch() -> u32 {
    static NOW: std::sync::OnceLock<u32> = std::sync::OnceLock::new();
    *NOW.get_or_init(|| std::time::SystemTime::now().duration_since(std::time::UNIX_EPOCH).map(|d| d.as_secs() as u32).unwrap_or(1_790_000_000))
}

pub fn wild_time() -> BS<u32> {
    let now = now_epoch();
    prop_oneof![6 => 1u32..=u32::MAX, 4 => 1_231_006_505u32..1_300_000_000, 2 => Just(1u32), 2 => Just(u32::MAX), 2 => Just(4_000_000_000u32), 3 => now - 4 * 3600..now + 4 * 3600, 1 => now + 7190..now + 7300].boxed()
}

impl ChainCfg {
    pub fn new(tier: Tier, script: BS<Vec<u8>>) -> ChainCfg {
        ChainCfg {
            tx: TxCfg::new(tier, script),
            coin: any_coin(),
            nblocks: (1usize..=8).boxed(),
            ntx: weighted(vec![(4, Just(0usize).boxed()), (8, (1usize..5).boxed()), (1, (5usize..20).boxed())]),
            base: Just(0u64).boxed(),
            real_genesis: Just(false).boxed(),
            time: wild_time(),
            dup_coinbase: false,
        }
    }
}

pub fn block(cfg: &ChainCfg, coin: Coin) -> BS<BlockSpec> {
    let t = tx(&cfg.tx);
    let aux = if coin.auxpow_threshold().is_some() { prop_oneof![1 => Just(None), 3 => auxpow(&cfg.tx).prop_map(Some)].boxed() } else { Just(None).boxed() };
    let dup = if cfg.dup_coinbase { prop_oneof![6 => Just(None), 1 => any::<u16>().prop_map(Some)].boxed() } else { Just(None).boxed() };
    let t: BS<TxSpec> = if cfg.dup_coinbase { (t, prop_oneof![12 => Just(None), 1 => any::<u16>().prop_map(Some)]).prop_map(|(mut t, d)| { t.dup_of = d; t }).boxed() } else { t };
    // blocks with very many transactions use transactions without the giant count classes, so
    // that one block stays within tens of MB (16 shards hold several cases each)
    let mut plain = cfg.tx.clone();
    plain.big_counts = false;
    let t_plain = tx(&plain);
    (block_version(coin), cfg.time.clone(), any::<u32>(), any::<u32>(), aux, coinbase(&cfg.tx), cfg.ntx.clone().prop_flat_map(move |n| if n >= 8 { vec(t_plain.clone(), n) } else { vec(t.clone(), n) }), dup)
        .prop_map(|(version, time, bits, nonce, auxpow, coinbase, txs, dup_coinbase)| BlockSpec { version, time, bits, nonce, auxpow, coinbase, txs, dup_coinbase })
        .boxed()
}

pub fn chain(cfg: &ChainCfg) -> BS<ChainSpec> {
    let cfg = cfg.clone();
    (cfg.coin.clone(), cfg.base.clone(), cfg.real_genesis.clone(), cfg.nblocks.clone())
        .prop_flat_map(move |(coin, base, real_genesis, n)| {
            let b = block(&cfg, coin);
            vec(b, n).prop_map(move |blocks| ChainSpec { coin, base, real_genesis, blocks })
        })
        .boxed()
}

/// heights whose Bitcoin Core VarInt needs 1..4 bytes; halving boundaries; capped below the
/// height where the reward shift would exceed 63
pub fn wide_base() -> BS<u64> {
    prop_oneof![
        4 => Just(0u64),
        2 => 1u64..128,
        2 => 128u64..16512,
        2 => 16512u64..2_113_664,
        1 => 2_113_664u64..10_000_000,
        1 => prop_oneof![Just(209_990u64), Just(419_995u64), Just(629_998u64), Just(120u64), Just(16_505u64), Just(2_113_660u64)],
        // heights are an `int` in Bitcoin Core: power-of-two neighbourhoods, the 4/5-byte VarInt boundary (270 549 120), up to 2^31 - 1
        1 => prop_oneof![Just(65_530u64), Just((1u64 << 24) - 5), Just(270_549_115u64), Just(270_549_120u64), Just((1u64 << 31) - 70), 270_549_120u64..(1u64 << 31) - 70],
        // beyond what a node can store (nHeight is an int) but inside what the index format and the tool's u64 hold:
        // around 2^32, 2^40, the first height with 2^32 halvings, 2^63
        1 => prop_oneof![Just((1u64 << 32) - 30), Just((1u64 << 32) + 5), Just(1u64 << 40), Just(210_000u64 * (1u64 << 32) - 20), Just((1u64 << 63) - 100)],
    ].boxed()
}
