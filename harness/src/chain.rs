//! Concrete chain objects and the hand-written *writer* for the Bitcoin-family wire format
//! (the tool only has a reader). Nothing here comes from /repo/src.
use crate::hashes::{sha256d, H256};
use serde::{Deserialize, Serialize};

#[derive(Clone, Copy, Debug, PartialEq, Eq, Hash, Serialize, Deserialize, PartialOrd, Ord)]
pub enum Coin {
    Bitcoin,
    Testnet3,
    Namecoin,
    Litecoin,
    Dogecoin,
    Myriadcoin,
    Unobtanium,
    Noteblockchain,
}

pub const ALL_COINS: [Coin; 8] = [
    Coin::Bitcoin,
    Coin::Testnet3,
    Coin::Namecoin,
    Coin::Litecoin,
    Coin::Dogecoin,
    Coin::Myriadcoin,
    Coin::Unobtanium,
    Coin::Noteblockchain,
];
pub const FORK_COINS: [Coin; 6] = [
    Coin::Namecoin,
    Coin::Litecoin,
    Coin::Dogecoin,
    Coin::Myriadcoin,
    Coin::Unobtanium,
    Coin::Noteblockchain,
];

impl Coin {
    /// value for `-c`
    pub fn cli(self) -> &'static str {
        match self {
            Coin::Bitcoin => "bitcoin",
            Coin::Testnet3 => "testnet3",
            Coin::Namecoin => "namecoin",
            Coin::Litecoin => "litecoin",
            Coin::Dogecoin => "dogecoin",
            Coin::Myriadcoin => "myriadcoin",
            Coin::Unobtanium => "unobtanium",
            Coin::Noteblockchain => "noteblockchain",
        }
    }
    /// network magic (own table, from the coins' chainparams)
    pub fn magic(self) -> u32 {
        match self {
            Coin::Bitcoin => 0xd9b4bef9,
            Coin::Testnet3 => 0x0709110b,
            Coin::Namecoin => 0xfeb4bef9,
            Coin::Litecoin => 0xdbb6c0fb,
            Coin::Dogecoin => 0xc0c0c0c0,
            Coin::Myriadcoin => 0xee7645af,
            Coin::Unobtanium => 0x03b5d503,
            Coin::Noteblockchain => 0xe3ede5f4,
        }
    }
    /// published P2PKH address version byte (as in the statements of C05/C06)
    pub fn addr_version(self) -> u8 {
        match self {
            Coin::Bitcoin => 0x00,
            Coin::Testnet3 => 0x6f,
            Coin::Namecoin => 0x34,
            Coin::Litecoin => 0x30,
            Coin::Dogecoin => 0x1e,
            Coin::Myriadcoin => 0x32,
            Coin::Unobtanium => 0x82,
            Coin::Noteblockchain => 0x35,
        }
    }
    pub fn is_btc(self) -> bool {
        matches!(self, Coin::Bitcoin | Coin::Testnet3)
    }
    /// AuxPoW activation version (statement of C12)
    pub fn auxpow_threshold(self) -> Option<u32> {
        match self {
            Coin::Namecoin => Some(0x10101),
            Coin::Dogecoin => Some(0x620102),
            _ => None,
        }
    }
    /// published genesis hash, display order
    pub fn genesis_hash_hex(self) -> &'static str {
        match self {
            Coin::Bitcoin => "000000000019d6689c085ae165831e934ff763ae46a2a6c172b3f1b60a8ce26f",
            Coin::Testnet3 => "000000000933ea01ad0ee984209779baaec3ced90fa3f408719526f8d77f4943",
            Coin::Namecoin => "000000000062b72c5e2ceb45fbc8587e807c155b0da735e6483dfba2f0a9c770",
            Coin::Litecoin => "12a765e31ffd4059bada1e25190f6e98c99d9714d334efa41a195a7e7e04bfe2",
            Coin::Dogecoin => "1a91e3dace36e2be3bf030a65679fe821aa1d6ef92e7c9902eb318182c355691",
            Coin::Myriadcoin => "00000ffde4c020b5938441a0ea3d314bf619eff0b38f32f78f7583cffa1ea485",
            Coin::Unobtanium => "000004c2fc5fffb810dccc197d603690099a68305232e552d96ccbe8e2c52b75",
            Coin::Noteblockchain => {
                "270f3e7b185c412d57ba913d10658df54f15201a67d736cb4071a4ec4eb54836"
            }
        }
    }
}

#[derive(Clone, Debug, PartialEq, Eq)]
pub struct TxIn {
    pub prev_txid: H256,
    pub prev_index: u32,
    pub script_sig: Vec<u8>,
    pub sequence: u32,
    pub witness: Vec<Vec<u8>>,
}

#[derive(Clone, Debug, PartialEq, Eq)]
pub struct TxOut {
    pub value: u64,
    pub script: Vec<u8>,
}

#[derive(Clone, Debug, PartialEq, Eq)]
pub struct Tx {
    pub version: u32,
    pub inputs: Vec<TxIn>,
    pub outputs: Vec<TxOut>,
    pub locktime: u32,
    /// serialise in BIP144 form (marker, flag, witness stacks)
    pub segwit: bool,
}

#[derive(Clone, Debug, PartialEq, Eq)]
pub struct AuxPow {
    pub coinbase: Tx,
    pub parent_hash: H256,
    pub cb_branch: Vec<H256>,
    pub cb_mask: u32,
    pub chain_branch: Vec<H256>,
    pub chain_mask: u32,
    pub parent_header: Vec<u8>, // 80 bytes
}

#[derive(Clone, Debug, PartialEq, Eq)]
pub struct Block {
    pub version: u32,
    pub prev: H256,
    pub merkle: H256,
    pub time: u32,
    pub bits: u32,
    pub nonce: u32,
    pub auxpow: Option<AuxPow>,
    pub txs: Vec<Tx>,
}

pub fn compact_size(n: u64, out: &mut Vec<u8>) {
    if n < 0xfd {
        out.push(n as u8);
    } else if n <= 0xffff {
        out.push(0xfd);
        out.extend_from_slice(&(n as u16).to_le_bytes());
    } else if n <= 0xffff_ffff {
        out.push(0xfe);
        out.extend_from_slice(&(n as u32).to_le_bytes());
    } else {
        out.push(0xff);
        out.extend_from_slice(&n.to_le_bytes());
    }
}

impl Tx {
    fn ser_core_inputs_outputs(&self, out: &mut Vec<u8>) {
        compact_size(self.inputs.len() as u64, out);
        for i in &self.inputs {
            out.extend_from_slice(&i.prev_txid);
            out.extend_from_slice(&i.prev_index.to_le_bytes());
            compact_size(i.script_sig.len() as u64, out);
            out.extend_from_slice(&i.script_sig);
            out.extend_from_slice(&i.sequence.to_le_bytes());
        }
        compact_size(self.outputs.len() as u64, out);
        for o in &self.outputs {
            out.extend_from_slice(&o.value.to_le_bytes());
            compact_size(o.script.len() as u64, out);
            out.extend_from_slice(&o.script);
        }
    }
    /// witness-stripped serialisation (what the txid covers)
    pub fn ser_stripped(&self) -> Vec<u8> {
        let mut out = Vec::new();
        out.extend_from_slice(&self.version.to_le_bytes());
        self.ser_core_inputs_outputs(&mut out);
        out.extend_from_slice(&self.locktime.to_le_bytes());
        out
    }
    /// on-disk serialisation (BIP144 when `segwit`)
    pub fn ser_disk(&self) -> Vec<u8> {
        if !self.segwit {
            return self.ser_stripped();
        }
        let mut out = Vec::new();
        out.extend_from_slice(&self.version.to_le_bytes());
        out.push(0); // marker
        out.push(1); // flag
        self.ser_core_inputs_outputs(&mut out);
        for i in &self.inputs {
            compact_size(i.witness.len() as u64, &mut out);
            for item in &i.witness {
                compact_size(item.len() as u64, &mut out);
                out.extend_from_slice(item);
            }
        }
        out.extend_from_slice(&self.locktime.to_le_bytes());
        out
    }
    pub fn txid(&self) -> H256 {
        sha256d(&self.ser_stripped())
    }
    pub fn is_coinbase_shaped(&self) -> bool {
        self.inputs.len() == 1
            && self.inputs[0].prev_txid == [0u8; 32]
            && self.inputs[0].prev_index == 0xffff_ffff
    }
}

impl AuxPow {
    pub fn ser(&self, out: &mut Vec<u8>) {
        out.extend_from_slice(&self.coinbase.ser_disk());
        out.extend_from_slice(&self.parent_hash);
        compact_size(self.cb_branch.len() as u64, out);
        for h in &self.cb_branch {
            out.extend_from_slice(h);
        }
        out.extend_from_slice(&self.cb_mask.to_le_bytes());
        compact_size(self.chain_branch.len() as u64, out);
        for h in &self.chain_branch {
            out.extend_from_slice(h);
        }
        out.extend_from_slice(&self.chain_mask.to_le_bytes());
        assert_eq!(self.parent_header.len(), 80);
        out.extend_from_slice(&self.parent_header);
    }
}

impl Block {
    pub fn header(&self) -> [u8; 80] {
        let mut h = [0u8; 80];
        h[0..4].copy_from_slice(&self.version.to_le_bytes());
        h[4..36].copy_from_slice(&self.prev);
        h[36..68].copy_from_slice(&self.merkle);
        h[68..72].copy_from_slice(&self.time.to_le_bytes());
        h[72..76].copy_from_slice(&self.bits.to_le_bytes());
        h[76..80].copy_from_slice(&self.nonce.to_le_bytes());
        h
    }
    pub fn hash(&self) -> H256 {
        sha256d(&self.header())
    }
    /// bytes stored after the (magic, size) prefix
    pub fn ser(&self) -> Vec<u8> {
        let mut out = Vec::new();
        out.extend_from_slice(&self.header());
        if let Some(a) = &self.auxpow {
            a.ser(&mut out);
        }
        compact_size(self.txs.len() as u64, &mut out);
        for t in &self.txs {
            out.extend_from_slice(&t.ser_disk());
        }
        out
    }
    pub fn compute_merkle(&self) -> H256 {
        merkle_root(&self.txs.iter().map(|t| t.txid()).collect::<Vec<_>>())
    }
}

/// Bitcoin merkle root: pair-wise double SHA-256, odd levels duplicate their last hash.
pub fn merkle_root(leaves: &[H256]) -> H256 {
    assert!(!leaves.is_empty());
    let mut level: Vec<H256> = leaves.to_vec();
    while level.len() > 1 {
        if level.len() % 2 == 1 {
            let l = *level.last().unwrap();
            level.push(l);
        }
        let mut next = Vec::with_capacity(level.len() / 2);
        for p in level.chunks(2) {
            let mut buf = [0u8; 64];
            buf[..32].copy_from_slice(&p[0]);
            buf[32..].copy_from_slice(&p[1]);
            next.push(sha256d(&buf));
        }
        level = next;
    }
    level[0]
}

/// minimal script-number push (used only to rebuild genesis coinbase scripts)
fn push_scriptnum(n: i64, out: &mut Vec<u8>) {
    let mut v = Vec::new();
    let mut abs = n.unsigned_abs();
    while abs > 0 {
        v.push((abs & 0xff) as u8);
        abs >>= 8;
    }
    if let Some(last) = v.last() {
        if last & 0x80 != 0 {
            v.push(if n < 0 { 0x80 } else { 0 });
        } else if n < 0 {
            *v.last_mut().unwrap() |= 0x80;
        }
    }
    out.push(v.len() as u8);
    out.extend(v);
}

fn push_data(d: &[u8], out: &mut Vec<u8>) {
    if d.len() < 0x4c {
        out.push(d.len() as u8);
    } else if d.len() <= 0xff {
        out.push(0x4c);
        out.push(d.len() as u8);
    } else {
        out.push(0x4d);
        out.extend_from_slice(&(d.len() as u16).to_le_bytes());
    }
    out.extend_from_slice(d);
}

const K_BTC: &str = "04678afdb0fe5548271967f1a67130b7105cd6a828e03909a67962e0ea1f61deb649f6bc3f4cef38c4f35504e51ec112de5c384df7ba0b8d578a4c702b6bf11d5f";
const K_LTC: &str = "040184710fa689ad5023690c80f3a49c8f13f8d45b8c857fbcbc8bc4a8e4d3eb4b10f4d4604fa08dce601aaf0f470216fe1b51850b4acf21b179c45070ac7b03a9";
const K_NMC: &str = "04b620369050cd899ffbbc4e8ee51e8c4534a855bb463439d63d235d4779685d8b6f4870a238cf365ac94fa13ef9a2a22cd99d0d5ee86dcabcafce36c7acf43ce5";
const K_MYR: &str = "04e941763c7750969e751bee1ffbe96a651a0feb131db046546c219ea40bff40b95077dc9ba1c05af991588772d8daabbda57386c068fb9bc7477c5e28702d5eb9";

/// Reconstructs the real genesis block of a coin (7 of 8 coins; NoteBlockchain's could not be
/// rebuilt offline). Self-certifying: `self_test` asserts hash == published genesis hash.
pub fn genesis_block(coin: Coin) -> Option<Block> {
    struct P {
        ver: u32,
        time: u32,
        nonce: u32,
        bits: u32,
        reward: u64,
        ts: &'static str,
        key: &'static str,
        sig_bits: i64,
        sig_extra: i64,
    }
    let btc_ts = "The Times 03/Jan/2009 Chancellor on brink of second bailout for banks";
    let p = match coin {
        Coin::Bitcoin => P { ver: 1, time: 1231006505, nonce: 2083236893, bits: 0x1d00ffff, reward: 5000000000, ts: btc_ts, key: K_BTC, sig_bits: 486604799, sig_extra: 4 },
        Coin::Testnet3 => P { ver: 1, time: 1296688602, nonce: 414098458, bits: 0x1d00ffff, reward: 5000000000, ts: btc_ts, key: K_BTC, sig_bits: 486604799, sig_extra: 4 },
        Coin::Litecoin => P { ver: 1, time: 1317972665, nonce: 2084524493, bits: 0x1e0ffff0, reward: 5000000000, ts: "NY Times 05/Oct/2011 Steve Jobs, Apple\u{2019}s Visionary, Dies at 56", key: K_LTC, sig_bits: 486604799, sig_extra: 4 },
        Coin::Dogecoin => P { ver: 1, time: 1386325540, nonce: 99943, bits: 0x1e0ffff0, reward: 8800000000, ts: "Nintondo", key: K_LTC, sig_bits: 486604799, sig_extra: 4 },
        Coin::Namecoin => P { ver: 1, time: 1303000001, nonce: 0xa21ea192, bits: 0x1c007fff, reward: 5000000000, ts: "... choose what comes next.  Lives of your own, or a return to chains. -- V", key: K_NMC, sig_bits: 0x1c007fff, sig_extra: 522 },
        Coin::Myriadcoin => P { ver: 2, time: 1393164995, nonce: 2092903596, bits: 0x1e0fffff, reward: 100000000000, ts: "2014-02-23 FT - G20 aims to add $2tn to global economy", key: K_MYR, sig_bits: 486604799, sig_extra: 4 },
        Coin::Unobtanium => P { ver: 1, time: 1375548986, nonce: 1211565, bits: 0x1e0fffff, reward: 100000000, ts: "San Francisco plaza evacuated after suspicious package is found", key: K_BTC, sig_bits: 486604799, sig_extra: 4 },
        Coin::Noteblockchain => return None,
    };
    let mut sig = Vec::new();
    push_scriptnum(p.sig_bits, &mut sig);
    push_scriptnum(p.sig_extra, &mut sig);
    push_data(p.ts.as_bytes(), &mut sig);
    let mut spk = Vec::new();
    push_data(&crate::hashes::unhex(p.key), &mut spk);
    spk.push(0xac);
    let tx = Tx {
        version: 1,
        inputs: vec![TxIn { prev_txid: [0; 32], prev_index: 0xffff_ffff, script_sig: sig, sequence: 0xffff_ffff, witness: vec![] }],
        outputs: vec![TxOut { value: p.reward, script: spk }],
        locktime: 0,
        segwit: false,
    };
    let mut b = Block { version: p.ver, prev: [0; 32], merkle: [0; 32], time: p.time, bits: p.bits, nonce: p.nonce, auxpow: None, txs: vec![tx] };
    b.merkle = b.compute_merkle();
    Some(b)
}

pub fn self_test() {
    for c in ALL_COINS {
        if let Some(b) = genesis_block(c) {
            assert_eq!(crate::hashes::rhex(&b.hash()), c.genesis_hash_hex(), "genesis of {:?}", c);
        }
    }
    let mut v = Vec::new();
    compact_size(0xfc, &mut v);
    compact_size(0xfd, &mut v);
    compact_size(0xffff, &mut v);
    compact_size(0x10000, &mut v);
    compact_size(0x1_0000_0000, &mut v);
    assert_eq!(crate::hashes::hex(&v), "fcfdfd00fdfffffe00000100ff0000000001000000");
}
