//! Serializable case descriptions ("specs") and their deterministic expansion into concrete chains.
//! A replay file is the JSON of a spec; everything else is recomputed from it.
use crate::chain::{genesis_block, AuxPow, Block, Coin, Tx, TxIn, TxOut};
use crate::hashes::{sha256, H256};
use serde::{Deserialize, Serialize};

pub mod hexser {
    use serde::{Deserialize, Deserializer, Serializer};
    pub fn serialize<S: Serializer>(v: &Vec<u8>, s: S) -> Result<S::Ok, S::Error> {
        s.serialize_str(&crate::hashes::hex(v))
    }
    pub fn deserialize<'de, D: Deserializer<'de>>(d: D) -> Result<Vec<u8>, D::Error> {
        let s = String::deserialize(d)?;
        Ok(crate::hashes::unhex(&s))
    }
}

pub mod hexvec {
    use serde::ser::SerializeSeq;
    use serde::{Deserialize, Deserializer, Serializer};
    pub fn serialize<S: Serializer>(v: &Vec<Vec<u8>>, s: S) -> Result<S::Ok, S::Error> {
        let mut seq = s.serialize_seq(Some(v.len()))?;
        for e in v {
            seq.serialize_element(&crate::hashes::hex(e))?;
        }
        seq.end()
    }
    pub fn deserialize<'de, D: Deserializer<'de>>(d: D) -> Result<Vec<Vec<u8>>, D::Error> {
        let v = Vec::<String>::deserialize(d)?;
        Ok(v.iter().map(|s| crate::hashes::unhex(s)).collect())
    }
}

#[derive(Clone, Debug, PartialEq, Eq, Serialize, Deserialize)]
pub struct OutSpec {
    pub value: u64,
    #[serde(with = "hexser")]
    pub script: Vec<u8>,
}

#[derive(Clone, Debug, PartialEq, Eq, Serialize, Deserialize)]
pub enum Src {
    /// spends an output created earlier in the chain (or earlier in the same block); the number
    /// is mapped monotonically onto the list of outputs created so far
    Known(u16),
    /// outpoint unknown to the chain: txid derived from the seed
    Unknown(u8, u32),
    /// null outpoint (coinbase-shaped when it is the only input)
    Null,
    /// all-zero txid with an arbitrary index (only half of the null outpoint)
    ZeroTxid(u32),
}

#[derive(Clone, Debug, PartialEq, Eq, Serialize, Deserialize)]
pub struct InSpec {
    pub src: Src,
    #[serde(with = "hexser")]
    pub script_sig: Vec<u8>,
    pub sequence: u32,
    #[serde(with = "hexvec")]
    pub witness: Vec<Vec<u8>>,
}

#[derive(Clone, Debug, PartialEq, Eq, Serialize, Deserialize)]
pub struct TxSpec {
    pub version: u32,
    pub locktime: u32,
    pub inputs: Vec<InSpec>,
    pub outputs: Vec<OutSpec>,
    pub segwit: bool,
    /// verbatim copy of a transaction built earlier (same block included): identical txid,
    /// its outputs are created again
    #[serde(default)]
    pub dup_of: Option<u16>,
}

#[derive(Clone, Debug, PartialEq, Eq, Serialize, Deserialize)]
pub struct AuxPowSpec {
    pub coinbase: TxSpec,
    pub seed: u8,
    pub cb_branch_len: u16,
    pub cb_mask: u32,
    pub chain_branch_len: u16,
    pub chain_mask: u32,
}

#[derive(Clone, Debug, PartialEq, Eq, Serialize, Deserialize)]
pub struct BlockSpec {
    pub version: u32,
    pub time: u32,
    pub bits: u32,
    pub nonce: u32,
    /// AuxPoW section; only serialised when the coin has a threshold and version >= threshold
    pub auxpow: Option<AuxPowSpec>,
    /// first tx; its single input is forced to the null outpoint
    pub coinbase: TxSpec,
    pub txs: Vec<TxSpec>,
    /// copy the coinbase of an earlier block verbatim (duplicate txid, BIP30 history)
    pub dup_coinbase: Option<u16>,
}

#[derive(Clone, Debug, PartialEq, Eq, Serialize, Deserialize)]
pub struct ChainSpec {
    pub coin: Coin,
    /// height of the first block
    pub base: u64,
    /// if base == 0: put the coin's real genesis block at height 0 (spec blocks follow from 1)
    pub real_genesis: bool,
    pub blocks: Vec<BlockSpec>,
}

#[derive(Clone, Debug)]
pub struct Built {
    pub coin: Coin,
    pub blocks: Vec<(u64, Block)>,
}

impl Built {
    pub fn tip(&self) -> u64 {
        self.blocks.last().unwrap().0
    }
    pub fn base(&self) -> u64 {
        self.blocks[0].0
    }
    pub fn range(&self, s: u64, e: u64) -> Vec<(u64, &Block)> {
        self.blocks.iter().filter(|(h, _)| *h >= s && *h <= e).map(|(h, b)| (*h, b)).collect()
    }
    pub fn all(&self) -> Vec<(u64, &Block)> {
        self.blocks.iter().map(|(h, b)| (*h, b)).collect()
    }
}

fn seed_hash(tag: &[u8], a: u64, b: u64) -> H256 {
    let mut v = tag.to_vec();
    v.extend_from_slice(&a.to_le_bytes());
    v.extend_from_slice(&b.to_le_bytes());
    sha256(&v)
}

/// monotone index map (shrinks well): i in 0..=65535 -> 0..len
pub fn mono(i: u16, len: usize) -> usize {
    ((i as usize) * len) >> 16
}

struct Ctx {
    outs: Vec<(H256, u32)>,
    /// non-coinbase transactions built so far
    txs: Vec<Tx>,
}

fn build_tx(t: &TxSpec, ctx: &mut Ctx, force_coinbase: bool) -> Tx {
    if let (Some(k), false) = (t.dup_of, force_coinbase) {
        if !ctx.txs.is_empty() {
            let c = ctx.txs[mono(k, ctx.txs.len())].clone();
            let txid = c.txid();
            for n in 0..c.outputs.len() {
                ctx.outs.push((txid, n as u32));
            }
            return c;
        }
    }
    let mut inputs = Vec::with_capacity(t.inputs.len());
    for (k, i) in t.inputs.iter().enumerate() {
        let (txid, idx) = if force_coinbase {
            ([0u8; 32], 0xffff_ffffu32)
        } else {
            match &i.src {
                Src::Known(n) if !ctx.outs.is_empty() => ctx.outs[mono(*n, ctx.outs.len())],
                Src::Known(n) => (seed_hash(b"unk", *n as u64, k as u64), 0),
                Src::Unknown(seed, idx) => (seed_hash(b"unk", *seed as u64, 0x55), *idx),
                Src::Null => ([0u8; 32], 0xffff_ffff),
                Src::ZeroTxid(idx) => ([0u8; 32], *idx),
            }
        };
        inputs.push(TxIn { prev_txid: txid, prev_index: idx, script_sig: i.script_sig.clone(), sequence: i.sequence, witness: i.witness.clone() });
        if force_coinbase {
            break;
        }
    }
    let outputs: Vec<TxOut> = t.outputs.iter().map(|o| TxOut { value: o.value, script: o.script.clone() }).collect();
    // BIP144 form requires at least one non-empty witness stack ("superfluous witness" is refused)
    let segwit = t.segwit && inputs.iter().any(|i| !i.witness.is_empty());
    let mut inputs = inputs;
    if !segwit {
        for i in inputs.iter_mut() {
            i.witness.clear();
        }
    }
    let tx = Tx { version: t.version, inputs, outputs, locktime: t.locktime, segwit };
    let txid = tx.txid();
    for n in 0..tx.outputs.len() {
        ctx.outs.push((txid, n as u32));
    }
    if !force_coinbase {
        ctx.txs.push(tx.clone());
    }
    tx
}

fn build_auxpow(a: &AuxPowSpec) -> AuxPow {
    let mut ctx = Ctx { outs: vec![], txs: vec![] };
    let cb = build_tx(&a.coinbase, &mut ctx, true);
    let s = a.seed as u64;
    let mut hdr = Vec::with_capacity(80);
    for k in 0..3u64 {
        hdr.extend_from_slice(&seed_hash(b"phdr", s, k));
    }
    hdr.truncate(80);
    AuxPow {
        coinbase: cb,
        parent_hash: seed_hash(b"phash", s, 0),
        cb_branch: (0..a.cb_branch_len).map(|k| seed_hash(b"cbb", s, k as u64)).collect(),
        cb_mask: a.cb_mask,
        chain_branch: (0..a.chain_branch_len).map(|k| seed_hash(b"chb", s, k as u64)).collect(),
        chain_mask: a.chain_mask,
        parent_header: hdr,
    }
}

impl ChainSpec {
    pub fn build(&self) -> Built {
        let mut blocks: Vec<(u64, Block)> = Vec::new();
        let mut ctx = Ctx { outs: vec![], txs: vec![] };
        let mut height = self.base;
        let mut prev: H256 = if self.base == 0 { [0u8; 32] } else { seed_hash(b"parent", self.base, 0) };
        if self.base == 0 && self.real_genesis {
            if let Some(g) = genesis_block(self.coin) {
                let txid = g.txs[0].txid();
                ctx.outs.push((txid, 0));
                prev = g.hash();
                blocks.push((0, g));
                height = 1;
            }
        }
        let threshold = self.coin.auxpow_threshold();
        let mut coinbases: Vec<Tx> = Vec::new();
        for bs in &self.blocks {
            let mut txs = Vec::with_capacity(1 + bs.txs.len());
            let cb = match bs.dup_coinbase {
                Some(k) if !coinbases.is_empty() => {
                    let c = coinbases[mono(k, coinbases.len())].clone();
                    let txid = c.txid();
                    for n in 0..c.outputs.len() {
                        ctx.outs.push((txid, n as u32));
                    }
                    c
                }
                _ => build_tx(&bs.coinbase, &mut ctx, true),
            };
            coinbases.push(cb.clone());
            txs.push(cb);
            for t in &bs.txs {
                txs.push(build_tx(t, &mut ctx, false));
            }
            let auxpow = match (threshold, &bs.auxpow) {
                (Some(th), Some(a)) if bs.version >= th => Some(build_auxpow(a)),
                (Some(th), None) if bs.version >= th => Some(build_auxpow(&AuxPowSpec {
                    coinbase: bs.coinbase.clone(),
                    seed: 0,
                    cb_branch_len: 0,
                    cb_mask: 0,
                    chain_branch_len: 0,
                    chain_mask: 0,
                })),
                _ => None,
            };
            let mut b = Block { version: bs.version, prev, merkle: [0; 32], time: bs.time, bits: bs.bits, nonce: bs.nonce, auxpow, txs };
            b.merkle = b.compute_merkle();
            prev = b.hash();
            blocks.push((height, b));
            height += 1;
        }
        Built { coin: self.coin, blocks }
    }
}

/// Deterministic chain whose outputs carry the given scripts (used by the script properties):
/// `per_tx` outputs per transaction, `txs_per_block` transactions per block.
pub fn chain_from_scripts(coin: Coin, scripts: &[Vec<u8>], values: &[u64], per_tx: usize, txs_per_block: usize, base: u64, time0: u32) -> ChainSpec {
    let per_tx = per_tx.max(1);
    let txs_per_block = txs_per_block.max(1);
    let mut blocks = Vec::new();
    let mut txs: Vec<TxSpec> = Vec::new();
    let mk_cb = |n: usize| TxSpec {
        version: 1,
        locktime: 0,
        inputs: vec![InSpec { src: Src::Null, script_sig: vec![2, (n & 0xff) as u8, (n >> 8) as u8], sequence: 0xffff_ffff, witness: vec![] }],
        outputs: vec![OutSpec { value: 5_000_000_000, script: { let mut s = vec![0x76, 0xa9, 0x14]; s.extend([0x11; 20]); s.extend([0x88, 0xac]); s } }],
        segwit: false,
        dup_of: None,
    };
    let flush = |txs: &mut Vec<TxSpec>, blocks: &mut Vec<BlockSpec>| {
        let n = blocks.len();
        blocks.push(BlockSpec { version: 1, time: time0.wrapping_add(600 * n as u32).max(1), bits: 0x1d00ffff, nonce: n as u32, auxpow: None, coinbase: mk_cb(n), txs: std::mem::take(txs), dup_coinbase: None });
    };
    for (k, chunk) in scripts.chunks(per_tx).enumerate() {
        let outputs: Vec<OutSpec> = chunk.iter().enumerate().map(|(j, s)| OutSpec { value: values[(k * per_tx + j) % values.len().max(1)], script: s.clone() }).collect();
        txs.push(TxSpec { version: 2, locktime: 0, inputs: vec![InSpec { src: Src::Unknown((k & 0xff) as u8, k as u32), script_sig: vec![0x01, 0x51], sequence: 0xffff_fffe, witness: vec![] }], outputs, segwit: false, dup_of: None });
        if txs.len() == txs_per_block {
            flush(&mut txs, &mut blocks);
        }
    }
    if !txs.is_empty() || blocks.is_empty() {
        flush(&mut txs, &mut blocks);
    }
    ChainSpec { coin, base, real_genesis: false, blocks }
}
