//! Reference renderings of every callback's output, from the property statements.
use crate::chain::{Block, Coin};
use crate::hashes::{hex, rhex, H256};
use crate::script::{expect_for, opreturn_text, SType};
use std::collections::{BTreeMap, BTreeSet, HashMap};

/// A processed range: (height, block) in ascending height order.
pub type Range<'a> = &'a [(u64, &'a Block)];

pub struct CsvDump {
    pub blocks: String,
    pub transactions: String,
    pub tx_in: String,
    pub tx_out: String,
    pub n_tx: u64,
    pub n_in: u64,
    pub n_out: u64,
}

pub fn csvdump(coin: Coin, range: Range) -> CsvDump {
    let mut d = CsvDump { blocks: String::new(), transactions: String::new(), tx_in: String::new(), tx_out: String::new(), n_tx: 0, n_in: 0, n_out: 0 };
    for (h, b) in range {
        let bh = rhex(&b.hash());
        let size = b.ser().len();
        d.blocks.push_str(&format!("{};{};{};{};{};{};{};{};{}\n", bh, h, b.version, size, rhex(&b.prev), rhex(&b.merkle), b.time, b.bits, b.nonce));
        for tx in &b.txs {
            let txid = rhex(&tx.txid());
            d.n_tx += 1;
            d.transactions.push_str(&format!("{};{};{};{}\n", txid, bh, tx.version, tx.locktime));
            for i in &tx.inputs {
                d.n_in += 1;
                d.tx_in.push_str(&format!("{};{};{};{};{}\n", txid, rhex(&i.prev_txid), i.prev_index, hex(&i.script_sig), i.sequence));
            }
            for (n, o) in tx.outputs.iter().enumerate() {
                d.n_out += 1;
                let addr = expect_for(coin, &o.script).address.unwrap_or_default();
                d.tx_out.push_str(&format!("{};{};{};{};{}\n", txid, n, o.value, hex(&o.script), addr));
            }
        }
    }
    d
}

#[derive(Clone, Debug, PartialEq, Eq)]
pub struct Utxo {
    pub height: u64,
    pub value: u64,
    pub address: String,
}

/// UTXO set of the range (C07): per tx in block order remove the referenced outpoints, then insert
/// the address-bearing outputs; a later identical outpoint replaces the earlier one.
pub fn utxo_set(coin: Coin, range: Range) -> BTreeMap<(H256, u32), Utxo> {
    let mut m: BTreeMap<(H256, u32), Utxo> = BTreeMap::new();
    let mut cache: HashMap<Vec<u8>, Option<String>> = HashMap::new();
    for (h, b) in range {
        for tx in &b.txs {
            for i in &tx.inputs {
                m.remove(&(i.prev_txid, i.prev_index));
            }
            let txid = tx.txid();
            for (n, o) in tx.outputs.iter().enumerate() {
                let a = cache.entry(o.script.clone()).or_insert_with(|| expect_for(coin, &o.script).address).clone();
                if let Some(a) = a {
                    m.insert((txid, n as u32), Utxo { height: *h, value: o.value, address: a });
                }
            }
        }
    }
    m
}

pub const UNSPENT_HEADER: &str = "txid;indexOut;height;value;address";
pub const BALANCES_HEADER: &str = "address;balance";

pub fn unspent_rows(coin: Coin, range: Range) -> BTreeSet<String> {
    utxo_set(coin, range).iter().map(|((t, i), u)| format!("{};{};{};{};{}", rhex(t), i, u.height, u.value, u.address)).collect()
}

/// per-address sums (u128 so the model itself cannot overflow)
pub fn balances(coin: Coin, range: Range) -> BTreeMap<String, u128> {
    let mut m: BTreeMap<String, u128> = BTreeMap::new();
    for u in utxo_set(coin, range).values() {
        *m.entry(u.address.clone()).or_insert(0) += u.value as u128;
    }
    m
}

pub fn balances_rows(coin: Coin, range: Range) -> BTreeSet<String> {
    balances(coin, range).iter().map(|(a, v)| format!("{};{}", a, v)).collect()
}

/// Lines the opreturn callback must print. `Err(height)` if some output in the range is an
/// OP_RETURN script of a shape whose text the statement leaves open.
pub fn opreturn_lines(coin: Coin, range: Range) -> Result<String, u64> {
    let mut s = String::new();
    for (h, b) in range {
        for tx in &b.txs {
            let txid = rhex(&tx.txid());
            for o in &tx.outputs {
                match opreturn_text(coin, &o.script) {
                    Ok(Some(t)) => s.push_str(&format!("height: {: <9} txid: {}    data: {}\n", h, txid, t)),
                    Ok(None) => {}
                    Err(()) => return Err(*h),
                }
            }
        }
    }
    Ok(s)
}

/// Exact simplestats figures (C15).
#[derive(Clone, Debug, Default)]
pub struct Stats {
    pub blocks: u64,
    pub txs: u64,
    pub inputs: u64,
    pub outputs: u64,
    pub fees: u128,
    pub volume: u128,
    /// (value, height, txid) - first on ties; None when the maximum is 0 (don't care)
    pub biggest_value: Option<(u128, u64, H256)>,
    pub biggest_size: Option<(usize, u64, H256)>,
    pub sum_block_size: u128,
    pub n_gaps: u64,
    pub sum_gaps: u128,
    /// per type: must-count, may-count (three-valued scripts), first occurrence among must outputs
    pub types: BTreeMap<SType, TypeStat>,
    /// true if some output's type is not fixed by the model (three-valued region)
    pub has_open_types: bool,
}

#[derive(Clone, Debug, Default)]
pub struct TypeStat {
    pub must: u64,
    pub may: u64,
    pub first: Option<(u64, H256)>,
    /// earliest position (global output ordinal) of a must / may occurrence
    pub first_must_ord: Option<u64>,
    pub first_may_ord: Option<u64>,
    pub first_may: Option<(u64, H256)>,
    /// every open-typed occurrence: (global output ordinal, (height, txid))
    pub may_positions: Vec<(u64, (u64, H256))>,
}

pub fn base_reward(height: u64) -> u64 {
    let halvings = height / 210000;
    if halvings >= 64 {
        0
    } else {
        5_000_000_000u64 >> halvings
    }
}

pub fn stats(coin: Coin, range: Range) -> Stats {
    stats_with_open(coin, range, &|_| false)
}

/// like `stats`, but outputs whose script satisfies `open` are treated as having any type
/// (used by C14: figures derived from a hostile field are not pinned down)
pub fn stats_with_open(coin: Coin, range: Range, open: &dyn Fn(&[u8]) -> bool) -> Stats {
    let mut st = Stats::default();
    let mut last_ts: Option<u32> = None;
    let mut ord: u64 = 0;
    let mut cache: HashMap<Vec<u8>, Vec<SType>> = HashMap::new();
    for (h, b) in range {
        st.blocks += 1;
        st.txs += b.txs.len() as u64;
        st.sum_block_size += b.ser().len() as u128;
        for tx in &b.txs {
            let txid = tx.txid();
            if tx.is_coinbase_shaped() {
                st.fees += tx.outputs[0].value.saturating_sub(base_reward(*h)) as u128;
            }
            st.inputs += tx.inputs.len() as u64;
            st.outputs += tx.outputs.len() as u64;
            let mut v: u128 = 0;
            for o in &tx.outputs {
                v += o.value as u128;
                let types = cache
                    .entry(o.script.clone())
                    .or_insert_with(|| {
                        if open(&o.script) {
                            use SType::*;
                            vec![OpReturn, Unspendable, P2PK, P2PKH, P2SH, P2WPKH, P2WSH, P2TR, WitnessProgram, Multisig, NotRecognised]
                        } else {
                            expect_for(coin, &o.script).types
                        }
                    })
                    .clone();
                if types.len() == 1 {
                    let e = st.types.entry(types[0]).or_default();
                    e.must += 1;
                    if e.first.is_none() {
                        e.first = Some((*h, txid));
                        e.first_must_ord = Some(ord);
                    }
                } else {
                    st.has_open_types = true;
                    for t in types {
                        let e = st.types.entry(t).or_default();
                        e.may += 1;
                        e.may_positions.push((ord, (*h, txid)));
                        if e.first_may.is_none() {
                            e.first_may = Some((*h, txid));
                            e.first_may_ord = Some(ord);
                        }
                    }
                }
                ord += 1;
            }
            st.volume += v;
            if v > st.biggest_value.map(|x| x.0).unwrap_or(0) {
                st.biggest_value = Some((v, *h, txid));
            }
            let sz = tx.ser_stripped().len();
            if sz > st.biggest_size.map(|x| x.0).unwrap_or(0) {
                st.biggest_size = Some((sz, *h, txid));
            }
        }
        if let Some(l) = last_ts {
            st.n_gaps += 1;
            st.sum_gaps += b.time.saturating_sub(l) as u128;
        }
        last_ts = Some(b.time);
    }
    st
}

/// Accepts a figure printed with `decimals` decimals iff it is within half a unit in the last
/// place (plus a 1e-9 relative slack for the binary floating point of the printer) of num/den*scale.
pub fn close_enough(printed: f64, num: u128, den: u128, scale: f64, decimals: i32) -> bool {
    if den == 0 {
        return true; // undefined mean: the statement does not define it
    }
    let exact = (num as f64) / (den as f64) * scale;
    let tol = 0.5 * 10f64.powi(-decimals) + 1e-9 * exact.abs() + 1e-12;
    (printed - exact).abs() <= tol
}
