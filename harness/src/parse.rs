//! Parsers for what the tool prints (formats recorded in DESIGN appendix B and E).
use crate::hashes::H256;
use crate::script::SType;
use std::collections::BTreeMap;

/// `[hh:mm:ss] LEVEL - target: message` -> Some((level, target, message))
pub fn split_log_line(line: &str) -> Option<(&str, &str, &str)> {
    let b = line.as_bytes();
    if b.len() < 12 || b[0] != b'[' || b[3] != b':' || b[6] != b':' || b[9] != b']' || b[10] != b' ' {
        return None;
    }
    for i in [1, 2, 4, 5, 7, 8] {
        if !b[i].is_ascii_digit() {
            return None;
        }
    }
    let rest = &line[11..];
    let (level, rest) = rest.split_once(" - ")?;
    if !matches!(level, "INFO" | "WARN" | "DEBUG" | "TRACE" | "ERROR") {
        return None;
    }
    let (target, msg) = rest.split_once(": ")?;
    if !matches!(target, "main" | "index" | "blkfile" | "parser" | "callback" | "script" | "simplestats" | "csvdump") {
        return None;
    }
    Some((level, target, msg))
}

/// Splits stdout into log messages (multi-line messages joined) and the non-log text ("data").
/// Continuation lines of the known multi-line messages are attributed to the message.
pub struct Stdout {
    pub logs: Vec<(String, String, String)>,
    pub data: String,
}

pub fn split_stdout(text: &str) -> Stdout {
    let mut logs: Vec<(String, String, String)> = Vec::new();
    let mut data = String::new();
    // number of continuation lines still expected for the current multi-line message
    let mut cont: usize = 0;
    let mut in_stats = false;
    for line in text.split_inclusive('\n') {
        let l = line.strip_suffix('\n').unwrap_or(line);
        if let Some((lv, tg, msg)) = split_log_line(l) {
            in_stats = false;
            cont = 0;
            if tg == "callback" && msg == "Done." {
                // "Done.\nDumped blocks from height S to E:\n\t-> transactions..\n\t-> inputs..\n\t-> outputs.." or "Done.\nDumped N addresses."
                cont = 4;
            }
            if tg == "simplestats" {
                in_stats = true;
            }
            logs.push((lv.to_string(), tg.to_string(), msg.to_string()));
            continue;
        }
        if in_stats {
            if let Some(last) = logs.last_mut() {
                last.2.push('\n');
                last.2.push_str(l);
            }
            continue;
        }
        if cont > 0 {
            let is_cont = l.starts_with("Dumped ") || l.starts_with("\t-> ");
            if is_cont {
                if l.starts_with("Dumped ") && l.ends_with(" addresses.") {
                    cont = 1;
                }
                cont -= 1;
                if let Some(last) = logs.last_mut() {
                    last.2.push('\n');
                    last.2.push_str(l);
                }
                continue;
            }
            cont = 0;
        }
        data.push_str(line);
    }
    Stdout { logs, data }
}

#[derive(Debug, Clone, PartialEq)]
pub struct Summary {
    pub from: u64,
    pub to: u64,
    pub txs: u64,
    pub inputs: u64,
    pub outputs: u64,
}

/// completion summary of csvdump / unspentcsvdump
pub fn parse_summary(s: &Stdout) -> Option<Summary> {
    for (_, tg, msg) in &s.logs {
        if tg == "callback" && msg.starts_with("Done.\nDumped blocks from height ") {
            let mut lines = msg.lines();
            lines.next();
            let l1 = lines.next()?;
            let r = l1.strip_prefix("Dumped blocks from height ")?.strip_suffix(':')?;
            let (a, b) = r.split_once(" to ")?;
            let num = |l: Option<&str>, p: &str| -> Option<u64> { l?.strip_prefix(p)?.trim().parse().ok() };
            let txs = num(lines.next(), "\t-> transactions:")?;
            let inputs = num(lines.next(), "\t-> inputs:")?;
            let outputs = num(lines.next(), "\t-> outputs:")?;
            return Some(Summary { from: a.parse().ok()?, to: b.parse().ok()?, txs, inputs, outputs });
        }
    }
    None
}

pub fn parse_balances_summary(s: &Stdout) -> Option<u64> {
    for (_, tg, msg) in &s.logs {
        if tg == "callback" && msg.starts_with("Done.\nDumped ") && msg.ends_with(" addresses.") {
            return msg.strip_prefix("Done.\nDumped ")?.strip_suffix(" addresses.")?.parse().ok();
        }
    }
    None
}

/// "Done. Processed blocks up to height N in M minutes."
pub fn parse_processed_up_to(s: &Stdout) -> Option<u64> {
    for (_, tg, msg) in &s.logs {
        if tg == "parser" {
            if let Some(r) = msg.strip_prefix("Done. Processed blocks up to height ") {
                return r.split(' ').next()?.parse().ok();
            }
        }
    }
    None
}

#[derive(Debug, Clone, Default)]
pub struct StatsReport {
    pub blocks: u64,
    pub txs: u64,
    pub inputs: u64,
    pub outputs: u64,
    pub fee_units: u128,
    pub fee_coins: f64,
    pub volume_units: u128,
    pub volume_coins: f64,
    pub biggest_value: (u128, f64, u64, H256),
    pub biggest_size: (u64, u64, H256),
    pub avg_block_kib: f64,
    pub avg_minutes: f64,
    pub avg_txs_per_block: f64,
    pub avg_inputs_per_tx: f64,
    pub avg_outputs_per_tx: f64,
    pub avg_value_per_output: f64,
    /// type label -> (count, share percent, first height, first txid); labels not known to the model kept verbatim
    pub types: BTreeMap<String, (u64, f64, u64, H256)>,
    pub type_label_dups: Vec<String>,
}

fn after<'a>(l: &'a str, p: &str) -> Option<&'a str> {
    let i = l.find(p)?;
    Some(l[i + p.len()..].trim())
}

fn parse_f(s: &str) -> Option<f64> {
    match s {
        "NaN" => Some(f64::NAN),
        "inf" => Some(f64::INFINITY),
        _ => s.parse().ok(),
    }
}

fn coins_units(s: &str) -> Option<(f64, u128)> {
    // "12.34000000 (1234000000 units)"
    let (c, r) = s.split_once(" (")?;
    let u = r.strip_suffix(" units)")?;
    Some((parse_f(c)?, u.parse().ok()?))
}

fn seen_in(l: &str, p: &str) -> Option<(u64, H256)> {
    // "        seen in block #H, txid: T"
    let r = after(l, p)?;
    let (h, t) = r.split_once(", txid: ")?;
    Some((h.parse().ok()?, crate::hashes::unrhex32(t.trim())))
}

pub fn parse_stats(s: &Stdout) -> Result<StatsReport, String> {
    let msg = s.logs.iter().find(|(_, tg, _)| tg == "simplestats").map(|x| x.2.clone()).ok_or("no simplestats report on stdout")?;
    let lines: Vec<&str> = msg.lines().collect();
    let mut r = StatsReport::default();
    let mut i = 0;
    let bad = |what: &str, l: &str| format!("cannot parse {} from report line {:?}", what, l);
    let mut seen = std::collections::BTreeSet::new();
    while i < lines.len() {
        let l = lines[i];
        if let Some(v) = after(l, "-> valid blocks:") {
            r.blocks = v.parse().map_err(|_| bad("valid blocks", l))?;
            seen.insert("blocks");
        } else if let Some(v) = after(l, "-> total transactions:") {
            r.txs = v.parse().map_err(|_| bad("total transactions", l))?;
            seen.insert("txs");
        } else if let Some(v) = after(l, "-> total tx inputs:") {
            r.inputs = v.parse().map_err(|_| bad("inputs", l))?;
            seen.insert("inputs");
        } else if let Some(v) = after(l, "-> total tx outputs:") {
            r.outputs = v.parse().map_err(|_| bad("outputs", l))?;
            seen.insert("outputs");
        } else if let Some(v) = after(l, "-> total tx fees:") {
            let (c, u) = coins_units(v).ok_or_else(|| bad("fees", l))?;
            r.fee_coins = c;
            r.fee_units = u;
            seen.insert("fees");
        } else if let Some(v) = after(l, "-> total volume:") {
            let (c, u) = coins_units(v).ok_or_else(|| bad("volume", l))?;
            r.volume_coins = c;
            r.volume_units = u;
            seen.insert("volume");
        } else if let Some(v) = after(l, "-> biggest value tx:") {
            let (c, u) = coins_units(v).ok_or_else(|| bad("biggest value", l))?;
            let (h, t) = seen_in(lines.get(i + 1).copied().unwrap_or(""), "seen in block #").ok_or_else(|| bad("biggest value position", lines.get(i + 1).copied().unwrap_or("")))?;
            r.biggest_value = (u, c, h, t);
            i += 1;
            seen.insert("bigv");
        } else if let Some(v) = after(l, "-> biggest size tx:") {
            let b: u64 = v.strip_suffix(" bytes").ok_or_else(|| bad("biggest size", l))?.parse().map_err(|_| bad("biggest size", l))?;
            let (h, t) = seen_in(lines.get(i + 1).copied().unwrap_or(""), "seen in block #").ok_or_else(|| bad("biggest size position", lines.get(i + 1).copied().unwrap_or("")))?;
            r.biggest_size = (b, h, t);
            i += 1;
            seen.insert("bigs");
        } else if let Some(v) = after(l, "-> avg block size:") {
            r.avg_block_kib = parse_f(v.strip_suffix(" KiB").ok_or_else(|| bad("avg block size", l))?).ok_or_else(|| bad("avg block size", l))?;
            seen.insert("a1");
        } else if let Some(v) = after(l, "-> avg time between blocks:") {
            r.avg_minutes = parse_f(v.strip_suffix(" (minutes)").ok_or_else(|| bad("avg time", l))?).ok_or_else(|| bad("avg time", l))?;
            seen.insert("a2");
        } else if let Some(v) = after(l, "-> avg txs per block:") {
            r.avg_txs_per_block = parse_f(v).ok_or_else(|| bad("avg txs", l))?;
            seen.insert("a3");
        } else if let Some(v) = after(l, "-> avg inputs per tx:") {
            r.avg_inputs_per_tx = parse_f(v).ok_or_else(|| bad("avg inputs", l))?;
            seen.insert("a4");
        } else if let Some(v) = after(l, "-> avg outputs per tx:") {
            r.avg_outputs_per_tx = parse_f(v).ok_or_else(|| bad("avg outputs", l))?;
            seen.insert("a5");
        } else if let Some(v) = after(l, "-> avg value per output:") {
            r.avg_value_per_output = parse_f(v).ok_or_else(|| bad("avg value", l))?;
            seen.insert("a6");
        } else if l.trim() == "Transaction Types:" {
            i += 1;
            while i < lines.len() {
                let l = lines[i];
                if let Some(v) = after(l, "   -> ") {
                    // "Label: count (share%)" - the label itself may contain ": " only for OpReturn("") - split at the last ": "
                    let k = v.rfind(": ").ok_or_else(|| bad("type line", l))?;
                    let label = v[..k].to_string();
                    let rest = &v[k + 2..];
                    let (cnt, share) = rest.split_once(" (").ok_or_else(|| bad("type count", l))?;
                    let share = parse_f(share.strip_suffix("%)").ok_or_else(|| bad("type share", l))?).ok_or_else(|| bad("type share", l))?;
                    let (h, t) = seen_in(lines.get(i + 1).copied().unwrap_or(""), "first seen in block #").ok_or_else(|| bad("type first occurrence", lines.get(i + 1).copied().unwrap_or("")))?;
                    if r.types.insert(label.clone(), (cnt.parse().map_err(|_| bad("type count", l))?, share, h, t)).is_some() {
                        r.type_label_dups.push(label);
                    }
                    i += 1;
                }
                i += 1;
            }
        }
        i += 1;
    }
    for k in ["blocks", "txs", "inputs", "outputs", "fees", "volume", "bigv", "bigs", "a1", "a2", "a3", "a4", "a5", "a6"] {
        if !seen.contains(k) {
            return Err(format!("simplestats report lacks figure {}", k));
        }
    }
    Ok(r)
}

pub fn type_of_label(label: &str) -> Option<SType> {
    SType::from_report_name(label)
}

/// stderr: "[..] ERROR - parser: Error at height H: reason"
pub fn error_height(stderr: &str) -> Option<u64> {
    for l in stderr.lines() {
        if let Some((lv, tg, msg)) = split_log_line(l) {
            if lv == "ERROR" && tg == "parser" {
                if let Some(r) = msg.strip_prefix("Error at height ") {
                    let h = r.split(':').next()?;
                    return h.trim().parse().ok();
                }
            }
        }
    }
    None
}
