//! C02 - exactly the blocks of heights start..min(end,tip) are delivered, once, ascending.
use crate::common::*;
use crate::{holds, infra, scaled, Args, PropDef};
use proptest::prelude::*;
use proptest::strategy::ValueTree;
use proptest::test_runner::{Config, RngAlgorithm, TestRng, TestRunner};
use serde::{Deserialize, Serialize};
use vpmodel::chain::Coin;
use vpmodel::datadir::canonical_plan;
use vpmodel::engine::{Engine, Pass, Verdict};
use vpmodel::gen::{self, Tier, BS};
use vpmodel::oracle::check_callback;
use vpmodel::parse::{parse_processed_up_to, split_stdout};
use vpmodel::run::{Callback, RunOpts, ALL_CALLBACKS};
use vpmodel::spec::ChainSpec;

pub const DEF: PropDef = PropDef {
    id: "C02",
    level: "exploration",
    rule: "part 1 (bounded-exhaustive): for every tip height T<=Tmax, every accepted option combination (none; -s in 0..=T; -e in 1..=T+3; both with s<e) x 5 callbacks x 2 coins on a fixed generated chain, plus the csvdump runs again with --verify on a chain that starts at the real genesis block; part 3 (progress-line-due): 15 runs (5 callbacks: whole chain, a range, and --verify from height 1..5) that are stopped for 10.5 s right after the first block is announced, so that the driver's 10-second progress line falls due inside the block loop; part 4 (thousand-blk-files): a 1300-block chain stored one block per blk file, processed whole and in ranges under RLIMIT_NOFILE=256 (real chains have thousands of blk files against a default limit of 1024); part 5 (chain-longer-than-2^16): a 66 200-block chain, whole for every callback and in ranges that start, end or lie across heights 65535 / 65536; part 2 (random): chains up to 60 blocks in generated physical layouts (1..60 blk files, any order), base heights up to 10^7 and at the 5-byte VarInt boundary, 2^24, 2^31 (segment chains), random (s,e). Oracle: callback output == reference model applied to exactly heights s..=min(e,T); file names carry s and min(e,T); 'Processed blocks up to height' == min(e,T); for csvdump/opreturn the range output equals the row slice of the whole-chain output. Non-trivial = a range option is given and at least one block of the chain is excluded; distinct by (T, base, s, e, callback, coin).",
    assumptions: &["options the CLI accepts: s<e when both are given; s <= T (a start beyond the tip is outside the statement)", "for chains whose first indexed height is > 0 a --start at or above that height is given"],
    run,
    replay,
};

#[derive(Clone, Debug, Serialize, Deserialize)]
pub struct Case {
    pub chain: ChainSpec,
    pub start: Option<u64>,
    pub end: Option<u64>,
    pub cb: Callback,
    /// physical layout (None = canonical single file)
    #[serde(default)]
    pub layout: Option<vpmodel::layout::LayoutSpec>,
    /// run with --verify (only where a consistent chain can pass it: real genesis at height 0, or --start above the first indexed height)
    #[serde(default)]
    pub verify: bool,
    /// stop the tool for 10.5 s right after it announced the first block (the next block is then
    /// more than 10 s 'late', which makes the driver print its progress line)
    #[serde(default)]
    pub pause: bool,
    /// RLIMIT_NOFILE of the run (part 'thousand-blk-files')
    #[serde(default)]
    pub nofile: Option<u64>,
    /// a pruned data directory: the blk files that hold only blocks below --start have been deleted (their index
    /// records remain); blocks outside the range must not matter in any way
    #[serde(default)]
    pub pruned: bool,
}

fn chain_cfg(tier: Tier) -> gen::ChainCfg {
    let mut cfg = gen::ChainCfg::new(tier, gen::c16_script(tier));
    cfg.ntx = prop_oneof![3 => Just(0usize), 5 => 1usize..4].boxed();
    cfg.dup_coinbase = true;
    cfg
}

fn fixed_chain(seed: u64, coin: Coin, nblocks: usize, tier: Tier) -> ChainSpec {
    let mut cfg = chain_cfg(tier);
    cfg.coin = Just(coin).boxed();
    cfg.nblocks = Just(nblocks).boxed();
    let mut s = [0u8; 32];
    s[..8].copy_from_slice(&seed.to_le_bytes());
    s[8] = nblocks as u8;
    s[9] = coin as u8;
    let mut runner = TestRunner::new_with_rng(Config::default(), TestRng::from_seed(RngAlgorithm::ChaCha, &s));
    gen::chain(&cfg).new_tree(&mut runner).unwrap().current()
}

pub fn check(c: &Case) -> Verdict {
    let built = c.chain.build();
    let (base, tip) = (built.base(), built.tip());
    let start = match c.start {
        Some(s) => Some(s),
        None if base > 0 => Some(base),
        None => None,
    };
    // pruned directory: the range is moved so that it starts right behind the last block of some blk file (the file
    // that holds block s-1 is then among the deleted ones)
    let mut start = start;
    let mut end_opt = c.end;
    if let (true, Some(l), Some(s0)) = (c.pruned, &c.layout, start) {
        let nb = built.blocks.len();
        let mut top: std::collections::BTreeMap<usize, usize> = std::collections::BTreeMap::new();
        for i in 0..nb {
            top.insert(l.file_of(i), i);
        }
        let cands: Vec<u64> = (1..nb).filter(|i| top.get(&l.file_of(i - 1)) == Some(&(i - 1))).map(|i| built.blocks[i].0).collect();
        if !cands.is_empty() {
            let pick = cands[(s0 as usize) % cands.len()];
            start = Some(pick);
            if end_opt.map(|x| x <= pick).unwrap_or(false) {
                end_opt = None;
            }
        }
    }
    let s = start.unwrap_or(0);
    let e = end_opt.map(|e| e.min(tip)).unwrap_or(tip);
    if s > tip || s < base || end_opt.map(|x| x <= s).unwrap_or(false) {
        // outside the accepted domain (generators avoid this; shrinking may reach it)
        return Verdict::Pass(Pass::default());
    }
    let mut plan = match &c.layout {
        Some(l) => l.to_plan(&built),
        None => canonical_plan(built.coin, &built.blocks),
    };
    let w = infra!(World::create("c02", &mut plan));
    if let (true, Some(l)) = (c.pruned, &c.layout) {
        let nb = built.blocks.len();
        let mut top: std::collections::BTreeMap<usize, u64> = std::collections::BTreeMap::new();
        for i in 0..nb {
            let e = top.entry(l.file_of(i)).or_insert(0);
            *e = (*e).max(built.blocks[i].0);
        }
        let numbers = l.numbers();
        for (slot, maxh) in top {
            if maxh < s {
                if let Some(pf) = plan.files.iter().find(|pf| pf.number == numbers[slot]) {
                    let _ = std::fs::remove_file(w.data().join(&pf.name));
                }
            }
        }
    }
    let mut o = RunOpts::new(built.coin, c.cb);
    o.start = start;
    o.end = end_opt;
    if c.pause {
        o.pause_on = Some(("Processing blocks starting from height".to_string(), 10.5));
    }
    o.nofile = c.nofile;
    o.verify = c.verify && ((base == 0 && c.chain.real_genesis && vpmodel::chain::genesis_block(built.coin).is_some()) || s > base);
    let out = infra!(w.run(&o));
    if let Some(v) = timed_out_is_infra(&out) {
        return v;
    }
    let range = range_of(&built.blocks, s, e);
    holds!(check_callback(c.cb, built.coin, &range, &out, s).map_err(|m| format!("range {}..={} (tip {}), callback {}: {}", s, e, tip, c.cb.cli(), m)));
    let so = split_stdout(&out.stdout_text());
    match parse_processed_up_to(&so) {
        Some(h) if h == e => {}
        other => return Verdict::Fail(format!("range {}..={} (tip {}): 'Processed blocks up to height' reports {:?}", s, e, tip, other)),
    }
    // model-free slice relation for the per-block outputs
    let ranged = c.start.is_some() || c.end.is_some();
    let mut sub = 1;
    if ranged && base == 0 && !c.pruned && matches!(c.cb, Callback::CsvDump | Callback::OpReturn) {
        let whole = infra!(w.run(&RunOpts::new(built.coin, c.cb)));
        sub += 1;
        if !whole.ok() {
            return Verdict::Fail(format!("whole-chain run failed: {}", whole.describe()));
        }
        if c.cb == Callback::CsvDump {
            let wname = format!("blocks-0-{}.csv", tip);
            let rname = format!("blocks-{}-{}.csv", s, e);
            let (wf, rf) = match (whole.files.get(&wname), out.files.get(&rname)) {
                (Some(a), Some(b)) => (String::from_utf8_lossy(a).into_owned(), String::from_utf8_lossy(b).into_owned()),
                _ => return Verdict::Fail(format!("missing {} or {}", wname, rname)),
            };
            let slice: String = wf.lines().filter(|l| l.split(';').nth(1).and_then(|h| h.parse::<u64>().ok()).map(|h| h >= s && h <= e).unwrap_or(false)).map(|l| format!("{}\n", l)).collect();
            if slice != rf {
                return Verdict::Fail(format!("blocks file of range {}..={} is not the slice of the whole-chain file: {}", s, e, vpmodel::oracle::first_diff(&slice, &rf)));
            }
        } else {
            let wd = split_stdout(&whole.stdout_text()).data;
            let wl: Vec<&str> = wd.split_terminator('\n').collect();
            if wl.iter().all(|l| l.starts_with("height: ")) {
                let slice: String = wl.iter().filter(|l| l[8..].split(' ').next().and_then(|h| h.parse::<u64>().ok()).map(|h| h >= s && h <= e).unwrap_or(false)).map(|l| format!("{}\n", l)).collect();
                if slice != so.data {
                    return Verdict::Fail(format!("opreturn text of range {}..={} is not the slice of the whole-chain text: {}", s, e, vpmodel::oracle::first_diff(&slice, &so.data)));
                }
            }
        }
    }
    let excluded = s > base || e < tip;
    let classes = vec![
        format!("cb={}", c.cb.cli()),
        format!("opts={}{}", if c.start.is_some() { "s" } else { "" }, if c.end.is_some() { "e" } else { "" }),
        format!("end={}", match c.end { None => "none", Some(x) if x < tip => "below-tip", Some(x) if x == tip => "at-tip", _ => "above-tip" }),
        format!("base={}", if base == 0 { "0" } else if base < 128 { "1-byte" } else if base < 16512 { "2-byte" } else if base < 2_113_664 { "3-byte" } else { "4-byte" }),
    ];
    let sample = serde_json::json!({"coin": built.coin.cli(), "base": base, "tip": tip, "start": c.start, "end": c.end, "callback": c.cb.cli(), "expected_heights": format!("{}..={}", s, e)});
    Verdict::Pass(Pass { nontrivial: ranged && excluded, key: vpmodel::hashes::fnv64(format!("{}|{}|{:?}|{:?}|{}|{}", tip, base, c.start, c.end, c.cb.cli(), built.coin.cli()).as_bytes()), classes, known: vec![], sub_evals: sub, sample: Some(sample), extra_keys: vec![] })
}

pub fn exhaustive_cases(seed: u64, tmax: u64, tier: Tier) -> Vec<Case> {
    let mut v = Vec::new();
    for t in 0..=tmax {
        for coin in [Coin::Bitcoin, Coin::Dogecoin] {
            let chain = fixed_chain(seed, coin, (t + 1) as usize, tier);
            // same tip height with the coin's real genesis block at height 0, for the --verify variants
            let mut vchain = fixed_chain(seed ^ 0x5eed, coin, t as usize, tier);
            vchain.real_genesis = true;
            let mut opts: Vec<(Option<u64>, Option<u64>)> = vec![(None, None)];
            for s in 0..=t {
                opts.push((Some(s), None));
            }
            for e in 1..=t + 3 {
                opts.push((None, Some(e)));
            }
            for s in 0..=t {
                for e in s + 1..=t + 3 {
                    opts.push((Some(s), Some(e)));
                }
            }
            for (s, e) in opts {
                for cb in ALL_CALLBACKS {
                    v.push(Case { chain: chain.clone(), start: s, end: e, cb, layout: None, verify: false, pause: false, nofile: None, pruned: false });
                    if cb == Callback::CsvDump && coin == Coin::Bitcoin {
                        v.push(Case { chain: vchain.clone(), start: s, end: e, cb, layout: None, verify: true, pause: false, nofile: None, pruned: false });
                    }
                }
            }
        }
    }
    v
}

pub fn random_strategy(tier: Tier) -> BS<Case> {
    let mut cfg = chain_cfg(tier);
    cfg.nblocks = prop_oneof![6 => 1usize..12, 2 => 12usize..30, 1 => 30usize..=60].boxed();
    cfg.base = gen::wide_base();
    (gen::chain(&cfg), any::<u16>(), any::<u16>(), 0u8..4, 0u8..9, proptest::sample::select(ALL_CALLBACKS.to_vec()), proptest::option::weighted(0.6, vpmodel::layout::layout(tier, false, false)), proptest::bool::weighted(0.3))
        .prop_map(|(mut chain, a, b, mode, above, cb, layout, verify)| {
            if verify && chain.base == 0 {
                chain.real_genesis = true;
            }
            let n = chain.blocks.len() as u64;
            let (base, tip) = (chain.base, chain.base + n - 1);
            // s in base..=tip ; e in s+1..=tip+above
            let s = base + (a as u64 * n >> 16);
            // --end far above the tip: 2^32, 2^63 and u64::MAX are accepted values too
            let (above, far) = if above >= 6 { (5, Some([1u64 << 32, 1u64 << 63, u64::MAX][above as usize - 6])) } else { (above, None) };
            let span = tip + above as u64 - s;
            let e = far.unwrap_or(s + 1 + if span == 0 { 0 } else { (b as u64 * span) >> 16 });
            let (start, end) = match mode {
                0 => (None, None),
                1 => (Some(s), None),
                2 => (None, Some(e.max(base + 1))),
                _ => (Some(s), Some(e)),
            };
            let pruned = start.is_some() && (a ^ b) & 3 == 0;
            Case { chain, start, end, cb, layout, verify, pause: false, nofile: None, pruned }
        })
        .boxed()
}

fn run(eng: &Engine, a: &Args) {
    let (tmax, n) = if a.tier == Tier::Quick { (4, 200) } else { (6, 3000) };
    eng.enumerate("exhaustive-small-T", exhaustive_cases(a.seed, tmax, a.tier), check);
    let tier = a.tier;
    eng.explore("random-ranges", scaled(n, a), move || random_strategy(tier), check);
    // wall-clock driven code: the progress line is due once 10 s have passed since the last one
    let mut slow = Vec::new();
    for (k, cb) in ALL_CALLBACKS.iter().enumerate() {
        // thousands of one-transaction blocks: the block loop is still running when the stop arrives
        let scripts: Vec<Vec<u8>> = (0..6000usize).map(|i| if i % 7 == 3 { vec![0x6a, 0x03, b'a' + (i % 26) as u8, b'0' + (i % 10) as u8, b'!'] } else { let mut s = vec![0x76, 0xa9, 0x14]; s.extend([(i & 0xff) as u8, (i >> 8) as u8].iter().cycle().take(20)); s.extend([0x88, 0xac]); s }).collect();
        let chain = vpmodel::spec::chain_from_scripts([Coin::Bitcoin, Coin::Litecoin][k % 2], &scripts, &[1000, 2500], 1, 1, 0, 1_400_000_000);
        slow.push(Case { chain: chain.clone(), start: None, end: None, cb: *cb, layout: None, verify: false, pause: true, nofile: None, pruned: false });
        // the same with --verify (from a height above the first indexed one, so that any block 0 will do): the checks
        // of every later block still need the index records of the blocks before it
        slow.push(Case { chain: chain.clone(), start: Some(1 + k as u64), end: None, cb: *cb, layout: None, verify: true, pause: true, nofile: None, pruned: false });
        slow.push(Case { chain, start: Some(300), end: Some(5700), cb: *cb, layout: None, verify: false, pause: true, nofile: None, pruned: false });
    }
    eng.enumerate("progress-line-due", slow, check);
    // a chain spread over more blk files than the descriptor limit allows to hold open (real chains have thousands
    // of blk files against a default limit of 1024; here 1300 one-block files against a limit of 256): every
    // block of the range must still be delivered
    let scripts: Vec<Vec<u8>> = (0..1300usize).map(|i| { let mut s = vec![0x76, 0xa9, 0x14]; s.extend([(i & 0xff) as u8, (i >> 8) as u8].iter().cycle().take(20)); s.extend([0x88, 0xac]); s }).collect();
    let chain = vpmodel::spec::chain_from_scripts(Coin::Bitcoin, &scripts, &[1000, 2500], 1, 1, 0, 1_400_000_000);
    let nf = 1300usize;
    let layout = vpmodel::layout::LayoutSpec {
        files: (0..nf).map(|k| vpmodel::layout::FileSlot { number: k as u64, pad: 5 }).collect(),
        assign: (0..nf).map(|f| ((f * 65536 + nf - 1) / nf) as u16).collect(),
        order: vec![0],
        gaps: vec![vpmodel::layout::Gap::None],
        lead: vec![vpmodel::layout::Gap::None],
        xor: None,
        extras: Default::default(),
        ldb_small: false,
        ldb_reopens: 0,
        ldb_compact: false,
        ldb_history: false,
        xor_link: 0,
    };
    let many = vec![
        Case { chain: chain.clone(), start: None, end: None, cb: Callback::CsvDump, layout: Some(layout.clone()), verify: false, pause: false, nofile: Some(256), pruned: false },
        Case { chain: chain.clone(), start: Some(40), end: Some(1290), cb: Callback::UnspentCsvDump, layout: Some(layout.clone()), verify: false, pause: false, nofile: Some(256), pruned: false },
        Case { chain, start: None, end: Some(1000), cb: Callback::SimpleStats, layout: Some(layout), verify: false, pause: false, nofile: Some(256), pruned: false },
    ];
    eng.enumerate("thousand-blk-files", many, check);
    // a chain of more than 2^16 blocks: heights, block / row counters and per-height bookkeeping beyond 16 bits
    // (real chains have hundreds of thousands of blocks); whole chain for every callback, and ranges that start,
    // end or lie across heights 65535 / 65536
    let nb = 66_200usize;
    let scripts: Vec<Vec<u8>> = (0..nb).map(|i| if i % 5 == 2 { vec![0x6a, 0x04, b'a' + (i % 26) as u8, b'0' + (i / 26 % 10) as u8, b'A' + (i / 260 % 26) as u8, b'#'] } else { let mut s = vec![0x76, 0xa9, 0x14]; s.extend([(i & 0xff) as u8, (i >> 8) as u8, (i >> 16) as u8].iter().cycle().take(20)); s.extend([0x88, 0xac]); s }).collect();
    let chain = vpmodel::spec::chain_from_scripts(Coin::Bitcoin, &scripts, &[1000, 2500, 7], 1, 1, 0, 1_300_000_000);
    let mut long = Vec::new();
    for cb in ALL_CALLBACKS {
        long.push(Case { chain: chain.clone(), start: None, end: None, cb, layout: None, verify: false, pause: false, nofile: None, pruned: false });
    }
    for (s, e, cb) in [(Some(65_530u64), Some(65_541u64), Callback::CsvDump), (Some(65_536), None, Callback::UnspentCsvDump), (None, Some(65_536), Callback::Balances), (Some(65_535), Some(65_536), Callback::OpReturn), (Some(1), Some(65_535), Callback::SimpleStats)] {
        long.push(Case { chain: chain.clone(), start: s, end: e, cb, layout: None, verify: false, pause: false, nofile: None, pruned: false });
    }
    eng.enumerate("chain-longer-than-2^16", long, check);
    // per-block output of more than 4 MB in one run (60 000 OP_RETURN outputs over 48 blocks): the range result must
    // still be the slice of the whole-chain result, line for line
    let scripts: Vec<Vec<u8>> = (0..60_000usize).map(|i| { let n = 60 + i % 16; let mut s = vec![0x6a, n as u8]; s.extend((0..n).map(|k| b'a' + ((i + k * 11) % 26) as u8)); s }).collect();
    let chain = vpmodel::spec::chain_from_scripts(Coin::Bitcoin, &scripts, &[0, 546], 5, 250, 0, 1_400_000_000);
    eng.enumerate("opreturn-more-than-4MB", vec![
        Case { chain: chain.clone(), start: Some(20), end: Some(29), cb: Callback::OpReturn, layout: None, verify: false, pause: false, nofile: None, pruned: false },
        Case { chain, start: None, end: Some(47), cb: Callback::OpReturn, layout: None, verify: false, pause: false, nofile: None, pruned: false },
    ], check);
}

fn replay(part: &str, case: serde_json::Value) -> Option<Verdict> {
    match part {
        "exhaustive-small-T" | "random-ranges" | "progress-line-due" | "thousand-blk-files" | "chain-longer-than-2^16" | "opreturn-more-than-4MB" => Some(check(&serde_json::from_value(case).ok()?)),
        _ => None,
    }
}
