//! C11 - XOR-obfuscated block files yield the same result as plaintext ones.
use crate::common::*;
use crate::{holds, infra, scaled, Args, PropDef};
use proptest::prelude::*;
use serde::{Deserialize, Serialize};
use vpmodel::engine::{Engine, Pass, Verdict};
use vpmodel::gen::{self, Tier, BS};
use vpmodel::layout::{self, LayoutSpec};
use vpmodel::oracle::check_callback;
use vpmodel::run::{Callback, RunOpts, ALL_CALLBACKS};
use vpmodel::spec::ChainSpec;

pub const DEF: PropDef = PropDef {
    id: "C11",
    level: "exploration",
    rule: "a generated chain in a generated layout (as C03: any order, 1..60 files, gaps, holes beyond 32 KiB and 4 GiB, blocks larger than the 32 KiB read buffer) written twice: plaintext, and XOR-ed with a generated key (length 1..64 incl. lengths coprime to 8 and to 32768, all-zero, random) repeating from file offset 0. csvdump plus one more generated callback are run on both; outputs must be identical to each other (files byte-identical; data text and report identical) and to the reference model. Non-trivial = some block starts at an offset that is not a multiple of the key length and the traversal needs >=1 backward seek; distinct by (key length, layout hash).",
    assumptions: &["xor.dat holds the raw key bytes (Bitcoin Core 28 format)"],
    run,
    replay,
};

#[derive(Clone, Debug, Serialize, Deserialize)]
pub struct Case {
    pub chain: ChainSpec,
    pub layout: LayoutSpec,
    pub second: Callback,
    /// run without `-c` (Bitcoin chains only: it is the default coin)
    #[serde(default)]
    pub default_coin: bool,
}

pub fn strategy(tier: Tier, big_holes: bool) -> BS<Case> {
    let key = layout::xor_key().prop_map(|k| k.unwrap_or_else(|| vec![0x5a, 0x01, 0xff, 0x00, 0x80, 0x7f, 0x33, 0xc4]));
    (gen::chain(&crate::c03::chain_cfg(tier)), layout::layout(tier, false, big_holes), key, proptest::sample::select(ALL_CALLBACKS[1..].to_vec()))
        .prop_map(|(mut chain, mut layout, key, second)| {
            // a key that turns Bitcoin's network magic into another coin's: meaningful on a Bitcoin directory only
            if key.len() >= 4 {
                let alias = u32::from_le_bytes([key[0], key[1], key[2], key[3]]) ^ vpmodel::chain::Coin::Bitcoin.magic();
                if vpmodel::chain::ALL_COINS.iter().any(|c| c.magic() == alias) {
                    chain.coin = vpmodel::chain::Coin::Bitcoin;
                    chain.real_genesis = false;
                    for b in chain.blocks.iter_mut() {
                        b.auxpow = None;
                    }
                }
            }
            // opreturn text must be fully specified by the model: only single-push OP_RETURN shapes
            for b in chain.blocks.iter_mut() {
                for t in b.txs.iter_mut().chain(std::iter::once(&mut b.coinbase)) {
                    for o in t.outputs.iter_mut() {
                        if vpmodel::script::opreturn_text(chain.coin, &o.script).is_err() {
                            o.script = vec![0x6a, 0x02, b'h', b'i'];
                        }
                    }
                }
            }
            layout.xor = Some(key);
            Case { chain, layout, second, default_coin: false }
        })
        .boxed()
}

fn normalise(cb: Callback, out: &vpmodel::run::RunOut) -> String {
    // stdout without the timestamps of log lines
    let so = vpmodel::parse::split_stdout(&out.stdout_text());
    match cb {
        Callback::OpReturn => so.data,
        // the type table is printed in hash-map order: compare the parsed report (types sorted by label)
        Callback::SimpleStats => match vpmodel::parse::parse_stats(&so) {
            Ok(r) => format!("{:?}", r),
            Err(e) => format!("unparsable report: {}", e),
        },
        _ => String::new(),
    }
}

pub fn check(c: &Case) -> Verdict {
    let built = c.chain.build();
    let base = built.base();
    let all = built.all();
    let key = c.layout.xor.clone().unwrap_or_default();
    if key.is_empty() {
        return Verdict::Pass(Pass::default());
    }
    let mut plain_layout = c.layout.clone();
    plain_layout.xor = None;
    let mut plain_plan = plain_layout.to_plan(&built);
    let mut xor_plan = c.layout.to_plan(&built);
    let wp = infra!(World::create("c11p", &mut plain_plan));
    let wx = infra!(World::create("c11x", &mut xor_plan));
    let mut runs = 0;
    for cb in [Callback::CsvDump, c.second] {
        let mut o = RunOpts::new(built.coin, cb);
        if base > 0 {
            o.start = Some(base);
        }
        o.default_coin = c.default_coin;
        let p = infra!(wp.run(&o));
        let x = infra!(wx.run(&o));
        runs += 2;
        for r in [&p, &x] {
            if let Some(v) = timed_out_is_infra(r) {
                return v;
            }
        }
        holds!(check_callback(cb, built.coin, &all, &p, base).map_err(|m| format!("plaintext directory, {}: {}", cb.cli(), m)));
        if !x.ok() {
            return Verdict::Fail(format!("XOR-ed directory (key length {}), {}: tool failed: {}", key.len(), cb.cli(), x.describe()));
        }
        let same = match cb {
            Callback::CsvDump => p.files == x.files,
            Callback::UnspentCsvDump | Callback::Balances => {
                let rows = |o: &vpmodel::run::RunOut| -> Vec<std::collections::BTreeSet<String>> { o.files.values().map(|c| String::from_utf8_lossy(c).lines().map(|s| s.to_string()).collect()).collect() };
                p.files.keys().eq(x.files.keys()) && rows(&p) == rows(&x)
            }
            _ => normalise(cb, &p) == normalise(cb, &x),
        };
        if !same {
            let why = check_callback(cb, built.coin, &all, &x, base).err().unwrap_or_else(|| "outputs differ".into());
            return Verdict::Fail(format!("XOR-ed directory (key length {}) gives a different {} result than the plaintext directory: {}", key.len(), cb.cli(), why));
        }
    }
    let n = built.blocks.len();
    let kl = key.len() as u64;
    let unaligned = xor_plan.recs.iter().any(|r| (r.data_pos - 8) % kl != 0);
    let back = c.layout.backward_seeks(n);
    let big_block = built.blocks.iter().any(|(_, b)| b.ser().len() > 32 * 1024);
    let mut classes = vec![format!("keylen={}", match key.len() { 1 => "1", 2..=7 => "2-7", 8 => "8", 9..=63 => "9-63", _ => "64" }), format!("second={}", c.second.cli())];
    if key.iter().all(|b| *b == 0) {
        classes.push("all-zero-key".into());
    }
    if kl % 2 == 1 {
        classes.push("odd-keylen".into());
    }
    if big_block {
        classes.push("block>32KiB".into());
    }
    if back > 0 {
        classes.push("backward-seek".into());
    }
    if xor_plan.recs.iter().any(|r| r.data_pos > 0xffff_ffff) {
        classes.push("offset>4GiB".into());
    }
    let sample = serde_json::json!({"coin": built.coin.cli(), "blocks": n, "key": vpmodel::hashes::hex(&key), "files": c.layout.files_used(n), "backward_seeks": back, "block_offsets": xor_plan.recs.iter().take(6).map(|r| r.data_pos).collect::<Vec<_>>(), "second_callback": c.second.cli()});
    Verdict::Pass(Pass { nontrivial: unaligned && back >= 1, key: vpmodel::hashes::fnv64(format!("{}|{}", key.len(), key_of(&c.layout)).as_bytes()), classes, known: vec![], sub_evals: runs, sample: Some(sample), extra_keys: vec![] })
}

fn run(eng: &Engine, a: &Args) {
    // two phases: a change that mis-decodes sends the reader into multi-GiB holes (a run that only
    // ends at the watchdog = inconclusive); layouts without such holes fail fast and come first
    let (n1, n2) = if a.tier == Tier::Quick { (200, 100) } else { (2000, 1000) };
    let tier = a.tier;
    // Bitcoin directories in the plainest layout (blk00000.dat starting with the first block), run without `-c`, under
    // keys that turn the leading network magic - or the first size field - into another coin's magic / other plausible
    // values: what the XOR-ed bytes happen to look like must not matter
    let scripts: Vec<Vec<u8>> = (0..5usize).map(|i| { let mut s = vec![0x76, 0xa9, 0x14]; s.extend([0x30 + i as u8; 20]); s.extend([0x88, 0xac]); s }).collect();
    let chain = vpmodel::spec::chain_from_scripts(vpmodel::chain::Coin::Bitcoin, &scripts, &[1200, 7], 1, 1, 0, 1_400_000_000);
    let mut alias = Vec::new();
    for other in vpmodel::chain::ALL_COINS.iter().filter(|c| **c != vpmodel::chain::Coin::Bitcoin) {
        for keylen in [4usize, 8, 11] {
            let mut key = (vpmodel::chain::Coin::Bitcoin.magic() ^ other.magic()).to_le_bytes().to_vec();
            key.extend((0..keylen - 4).map(|k| 0x21 + 7 * k as u8));
            let mut l = LayoutSpec::canonical();
            l.xor = Some(key);
            alias.push(Case { chain: chain.clone(), layout: l, second: Callback::Balances, default_coin: true });
        }
    }
    // a key of more than a megabyte (the statement says any length), with blocks stored before and beyond that offset
    let long_key: Vec<u8> = (0..1_052_675u32).map(|i| (i.wrapping_mul(2_654_435_761) >> 13) as u8 | 1).collect();
    let mut lk = LayoutSpec::canonical();
    lk.gaps = vec![layout::Gap::None, layout::Gap::Hole(1_300_000), layout::Gap::None];
    lk.xor = Some(long_key);
    alias.push(Case { chain: chain.clone(), layout: lk, second: Callback::UnspentCsvDump, default_coin: false });
    eng.enumerate("magic-alias-keys", alias, check);
    eng.explore("xor-vs-plaintext", scaled(n1, a), move || strategy(tier, false), check);
    eng.explore("xor-vs-plaintext-4GiB", scaled(n2, a), move || strategy(tier, true), check);
}

fn replay(part: &str, case: serde_json::Value) -> Option<Verdict> {
    match part {
        "xor-vs-plaintext" | "xor-vs-plaintext-4GiB" | "magic-alias-keys" => Some(check(&serde_json::from_value(case).ok()?)),
        _ => None,
    }
}
