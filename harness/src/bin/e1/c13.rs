//! C13 - output depends only on data directory and options, never on scheduling or reruns.
use crate::common::*;
use crate::{holds, infra, scaled, Args, PropDef};
use proptest::prelude::*;
use serde::{Deserialize, Serialize};
use std::collections::BTreeMap;
use vpmodel::datadir::{canonical_plan, dump_index};
use vpmodel::engine::{Engine, Pass, Verdict};
use vpmodel::gen::{self, Tier, BS};
use vpmodel::oracle::check_callback;
use vpmodel::run::{Callback, RunOpts, ALL_CALLBACKS};
use vpmodel::spec::ChainSpec;

pub const DEF: PropDef = PropDef {
    id: "C13",
    level: "exploration",
    rule: "part 'threads': chains whose blocks hold up to hundreds of transactions and outputs (so that both nested parallel collects really split work) are processed with RAYON_NUM_THREADS in {1,2,3,8,16,64,97,300} (more workers than a block has transactions or a transaction has outputs), with 64 threads pinned to one CPU, and with 4 / 8 threads whose futex calls are delayed by injected syscall delays (every 2nd / 3rd call of every thread), while the other 15 shards keep all cores busy; every run must equal the reference model and the 1-thread run (csvdump byte-identical; simplestats report equal modulo the unordered type list; opreturn text identical; unspent/balances identical row sets). part 'reruns': sequences of 3..6 runs of generated callbacks sharing one data directory and one dump folder that is pre-seeded with longer stale *.tmp files and final-named files of an earlier range; after every run the callback's files must equal the model, no *.tmp of that callback may remain, SHA-256 of every blk*.dat and xor.dat and the key/value content of the index must be unchanged. part 'same-directory-repeated': data directories with competing index records (C04's generator: stale siblings, failed blocks and reorged-out branches with data in a second blk file, header-only records) are processed by 6 fresh processes with different thread counts; all 6 results (exit status and canonical output) must be identical - no model is involved, so the open finding D7 of C04 does not interfere. Non-trivial = >=2 thread settings compared on a block with >=64 txs, a sequence of >=3 runs, or a directory with a competing record at an occupied height; distinct by (chain hash, settings). In 'reruns' the chains carry arbitrary header times (incl. a class within hours of the current wall clock) and every run after the first has its wall clock shifted by an LD_PRELOAD shim to within hours or a day of one block's header time, or decades away.",
    assumptions: &["rayon's scheduler cannot be owned from outside: thread counts, CPU pinning and load sample interleavings, they do not enumerate them (DESIGN section 8)"],
    run,
    replay,
};

#[derive(Clone, Debug, Serialize, Deserialize)]
pub struct ThreadCase {
    pub chain: ChainSpec,
    pub second: Callback,
}

#[derive(Clone, Debug, Serialize, Deserialize)]
pub struct RerunCase {
    pub chain: ChainSpec,
    pub runs: Vec<(Callback, Option<u16>)>,
    pub xor: bool,
    pub compact_index: bool,
    /// bit i set: run i is preceded by a run of the same callback into the same dump folder that FAILS (--verify on a
    /// chain whose block 0 is not the coin's genesis block, or a damaged copy of the data directory); what a failed
    /// run leaves behind - in the dump folder, HOME or TMPDIR - must not change the result of the runs after it
    #[serde(default)]
    pub failures: u8,
}

fn chain_cfg(tier: Tier, heavy: bool) -> gen::ChainCfg {
    let mut cfg = gen::ChainCfg::new(tier, gen::c16_script(tier));
    cfg.nblocks = if heavy { (1usize..=3).boxed() } else { (2usize..=5).boxed() };
    cfg.ntx = if heavy { prop_oneof![4 => 64usize..130, 1 => 1usize..10, 1 => 200usize..320].boxed() } else { (0usize..6).boxed() };
    cfg.tx.max_common = if heavy { 10 } else { 3 };
    cfg.tx.big_counts = false;
    cfg.tx.max_value = 2_100_000_000_000_000 / 4096;
    cfg.time = if heavy { gen::monotonic_time() } else { gen::wild_time() };
    cfg
}

pub fn thread_strategy(tier: Tier) -> BS<ThreadCase> {
    // one transaction of the chain gets a few hundred outputs so that the inner parallel collect splits too
    (gen::chain(&chain_cfg(tier, true)), proptest::sample::select(ALL_CALLBACKS[1..].to_vec()), 16usize..400, any::<u16>())
        .prop_map(|(mut chain, second, wide, sel)| {
            let nb = chain.blocks.len();
            let b = &mut chain.blocks[vpmodel::spec::mono(sel, nb)];
            if let Some(t) = b.txs.first_mut() {
                let proto = t.outputs[0].clone();
                while t.outputs.len() < wide {
                    let mut o = proto.clone();
                    o.value = t.outputs.len() as u64;
                    t.outputs.push(o);
                }
            }
            ThreadCase { chain, second }
        })
        .boxed()
}

pub fn rerun_strategy(tier: Tier) -> BS<RerunCase> {
    let r = (proptest::sample::select(ALL_CALLBACKS.to_vec()), proptest::option::weighted(0.3, any::<u16>()));
    (gen::chain(&chain_cfg(tier, false)), proptest::collection::vec(r, 3..=6), any::<bool>(), any::<bool>()).prop_map(|(chain, runs, xor, compact_index)| { let failures = (chain.blocks.len() as u8).wrapping_mul(37) ^ (runs.len() as u8) << 2; RerunCase { chain, runs, xor, compact_index, failures } }).boxed()
}

pub fn check_threads(c: &ThreadCase) -> Verdict {
    let built = c.chain.build();
    let mut plan = canonical_plan(built.coin, &built.blocks);
    let w = infra!(World::create("c13t", &mut plan));
    let all = built.all();
    // (threads, pinned to one CPU, futex perturbation): the last two settings delay every k-th futex
    // call of every thread (strace syscall-delay injection), which shifts wake-ups and work stealing
    let settings: [(u32, bool, Option<&str>); 11] = [(1, false, None), (2, false, None), (3, false, None), (8, false, None), (16, false, None), (64, false, None), (64, true, None), (97, false, None), (300, false, None), (4, false, Some("1+2")), (8, false, Some("2+3"))];
    let mut runs = 0;
    for cb in [Callback::CsvDump, c.second] {
        let mut reference: Option<String> = None;
        for (t, pin, perturb) in settings {
            let mut o = RunOpts::new(built.coin, cb);
            o.threads = Some(t);
            o.pin = pin;
            if perturb.is_some() && cb != Callback::CsvDump {
                continue;
            }
            if let Some(expr) = perturb {
                o.inject = Some(vpmodel::run::Inject { syscall: "futex".into(), action: "delay_enter=400".into(), when: 1, paths: vec![], when_expr: Some(expr.to_string()) });
            }
            let t0 = std::time::Instant::now();
            let out = infra!(w.run(&o));
            if std::env::var("VP_TIMING").is_ok() {
                eprintln!("timing cb={} threads={} pin={} perturb={:?} {:.2}s stderr={}B", cb.cli(), t, pin, perturb, t0.elapsed().as_secs_f64(), out.stderr.len());
            }
            runs += 1;
            if let Some(v) = timed_out_is_infra(&out) {
                return v;
            }
            holds!(check_callback(cb, built.coin, &all, &out, 0).map_err(|m| format!("{} with RAYON_NUM_THREADS={}{}: {}", cb.cli(), t, if pin { " pinned to one CPU" } else { "" }, m)));
            let k = canon(cb, &out);
            match &reference {
                None => reference = Some(k),
                Some(r) => {
                    if *r != k {
                        return Verdict::Fail(format!("{} result with RAYON_NUM_THREADS={}{} differs from the single-threaded run", cb.cli(), t, if pin { " pinned" } else { "" }));
                    }
                }
            }
        }
    }
    let maxtx = built.blocks.iter().map(|(_, b)| b.txs.len()).max().unwrap_or(0);
    let maxout = built.blocks.iter().flat_map(|(_, b)| b.txs.iter().map(|t| t.outputs.len())).max().unwrap_or(0);
    let classes = vec![format!("max-txs={}", match maxtx { 0..=63 => "<64", 64..=199 => "64-199", _ => ">=200" }), format!("max-outputs={}", match maxout { 0..=15 => "<16", 16..=255 => "16-255", _ => ">=256" }), format!("second={}", c.second.cli())];
    let sample = serde_json::json!({"coin": built.coin.cli(), "blocks": built.blocks.len(), "max_txs_per_block": maxtx, "max_outputs_per_tx": maxout, "settings": "1,2,3,8,16,64,64-pinned,97,300", "callbacks": ["csvdump", c.second.cli()]});
    Verdict::Pass(Pass { nontrivial: maxtx >= 64, key: key_of(c), classes, known: vec![], sub_evals: runs, sample: Some(sample), extra_keys: vec![] })
}

fn copy_dir(from: &std::path::Path, to: &std::path::Path) -> Result<(), String> {
    std::fs::create_dir_all(to).map_err(|e| e.to_string())?;
    for e in std::fs::read_dir(from).map_err(|e| e.to_string())?.flatten() {
        let (p, t) = (e.path(), to.join(e.file_name()));
        if p.is_dir() {
            copy_dir(&p, &t)?;
        } else {
            std::fs::copy(&p, &t).map_err(|e| e.to_string())?;
        }
    }
    Ok(())
}

fn digest_dir(dir: &std::path::Path) -> BTreeMap<String, String> {
    let mut m = BTreeMap::new();
    if let Ok(rd) = std::fs::read_dir(dir) {
        for e in rd.flatten() {
            let n = e.file_name().to_string_lossy().into_owned();
            if e.path().is_file() && (n.starts_with("blk") || n == "xor.dat") {
                m.insert(n, vpmodel::hashes::hex(&vpmodel::hashes::sha256(&std::fs::read(e.path()).unwrap_or_default())));
            }
        }
    }
    m
}

pub fn check_reruns(c: &RerunCase) -> Verdict {
    let built = c.chain.build();
    let tip = built.tip();
    let mut plan = canonical_plan(built.coin, &built.blocks);
    if c.xor {
        plan.xor = Some(vec![0x13, 0x37, 0xc0, 0xde, 0x00, 0xff, 0x55, 0xaa]);
    }
    plan.ldb_compact = c.compact_index;
    plan.ldb_small_buffer = c.compact_index;
    let w = infra!(World::create("c13r", &mut plan));
    let before_files = digest_dir(&w.data());
    let before_index = infra!(dump_index(&w.data().join("index"), &w.scratch.path.join("idxcopy")));
    // shared, pre-seeded dump folder
    let dump = w.new_dump();
    let junk = vec![b'#'; 300_000];
    for stem in ["blocks", "transactions", "tx_in", "tx_out", "unspent", "balances"] {
        infra!(std::fs::write(dump.join(format!("{}.csv.tmp", stem)), &junk).map_err(|e| e.to_string()));
        infra!(std::fs::write(dump.join(format!("{}-0-{}.csv", stem, tip + 7)), b"stale result of an earlier, longer run\n").map_err(|e| e.to_string()));
    }
    infra!(std::fs::write(dump.join("notes.txt"), b"unrelated").map_err(|e| e.to_string()));
    let mut n = 0;
    for (cb, end_sel) in &c.runs {
        let end = end_sel.map(|x| 1 + ((x as u64 * (tip + 2)) >> 16));
        let e = end.map(|x| x.min(tip)).unwrap_or(tip);
        if c.failures >> (n as u32 % 8) & 1 == 1 {
            let mut of = RunOpts::new(built.coin, *cb);
            let failed = if n % 2 == 0 {
                // block 0 of these chains is not the coin's genesis block: --verify must reject it
                of.verify = true;
                infra!(w.run_in(&dump, &of))
            } else {
                // a copy of the data directory whose last blk file lost its second half
                let bad = w.scratch.path.join(format!("damaged-{}", n));
                infra!(copy_dir(&w.data(), &bad));
                if let Some(f) = std::fs::read_dir(&bad).ok().and_then(|rd| rd.flatten().map(|e| e.path()).filter(|p| p.file_name().and_then(|x| x.to_str()).map(|x| x.starts_with("blk") && x.ends_with(".dat")).unwrap_or(false)).max()) {
                    let len = std::fs::metadata(&f).map(|m| m.len()).unwrap_or(0);
                    if let Ok(fh) = std::fs::OpenOptions::new().write(true).open(&f) {
                        let _ = fh.set_len(len / 2);
                    }
                }
                let r = infra!(vpmodel::run::run_tool(&bad, &dump, &of));
                let _ = std::fs::remove_dir_all(&bad);
                r
            };
            if failed.timed_out {
                return Verdict::Infra("tool run hit the watchdog".into());
            }
            if failed.ok() {
                return Verdict::Fail(format!("the deliberately failing run before run #{} ({}, {}) exited 0", n + 1, cb.cli(), if n % 2 == 0 { "--verify on a chain without the genesis block" } else { "truncated blk file" }));
            }
        }
        let folder_before = vpmodel::run::read_dir_files(&dump);
        let mut o = RunOpts::new(built.coin, *cb);
        o.end = end;
        // every run after the first happens at another date: the wall clock is shifted (LD_PRELOAD shim) to within
        // hours or a day of one block's header time - before it, after it, two hours around it - or decades away
        if n > 0 {
            let t = built.blocks[(n as usize * 7) % built.blocks.len()].1.time as i64;
            let target = [t - 7230, t + 7230, t, t - 90_000, t + 90_000, t + 3600, 86_400 * 365 * 80, 1_000_000][(n as usize + built.blocks.len()) % 8];
            o.clock_offset = Some(target - gen::now_epoch() as i64);
        }
        let mut out = infra!(w.run_in(&dump, &o));
        n += 1;
        if let Some(v) = timed_out_is_infra(&out) {
            return v;
        }
        if !out.ok() {
            return Verdict::Fail(format!("run #{} ({}) on the shared directory failed: {}", n, cb.cli(), out.describe()));
        }
        // restrict the view to this callback's final files for the model comparison
        let all_files = vpmodel::run::read_dir_files(&dump);
        let mine: std::collections::BTreeSet<String> = vpmodel::oracle::expected_names(*cb, 0, e);
        out.files = all_files.iter().filter(|(k, _)| mine.contains(*k)).map(|(k, v)| (k.clone(), v.clone())).collect();
        let range = range_of(&built.blocks, 0, e);
        holds!(check_callback(*cb, built.coin, &range, &out, 0).map_err(|m| format!("run #{} ({}, range 0..={}) on the shared dump folder: {}", n, cb.cli(), e, m)));
        for stem in cb.stems() {
            if all_files.contains_key(&format!("{}.csv.tmp", stem)) {
                return Verdict::Fail(format!("run #{} ({}) left {}.csv.tmp behind", n, cb.cli(), stem));
            }
        }
        if all_files.get("notes.txt").map(|v| v.as_slice()) != Some(b"unrelated".as_slice()) {
            return Verdict::Fail("an unrelated file of the dump folder was changed".into());
        }
        // apart from this callback's own final-named and temporary files the folder is what it was before the run:
        // temporary files and results of OTHER callbacks are neither removed, renamed nor rewritten
        let own_tmp: std::collections::BTreeSet<String> = cb.stems().iter().map(|s| format!("{}.csv.tmp", s)).collect();
        let names: std::collections::BTreeSet<&String> = folder_before.keys().chain(all_files.keys()).collect();
        for name in names {
            if mine.contains(name) || own_tmp.contains(name) || name.starts_with('.') {
                continue;
            }
            if folder_before.get(name) != all_files.get(name) {
                return Verdict::Fail(format!("run #{} ({}) {} the file {} of the dump folder, which does not belong to it", n, cb.cli(), match (folder_before.contains_key(name), all_files.contains_key(name)) { (true, false) => "removed", (false, true) => "created", _ => "changed" }, name));
            }
        }
        let after_files = digest_dir(&w.data());
        if after_files != before_files {
            return Verdict::Fail(format!("run #{} ({}) modified blk*.dat / xor.dat: before {:?} after {:?}", n, cb.cli(), before_files, after_files));
        }
        let after_index = infra!(dump_index(&w.data().join("index"), &w.scratch.path.join("idxcopy")));
        if after_index != before_index {
            return Verdict::Fail(format!("run #{} ({}) changed the key/value content of the block index ({} -> {} entries)", n, cb.cli(), before_index.len(), after_index.len()));
        }
    }
    let classes = vec![format!("runs={}", c.runs.len()), format!("xor={}", c.xor), format!("table-backed-index={}", c.compact_index)];
    let sample = serde_json::json!({"coin": built.coin.cli(), "tip": tip, "runs": c.runs.iter().map(|(cb, e)| format!("{}{}", cb.cli(), if e.is_some() { " -e" } else { "" })).collect::<Vec<_>>(), "xor": c.xor});
    Verdict::Pass(Pass { nontrivial: c.runs.len() >= 3, key: key_of(c), classes, known: vec![], sub_evals: n, sample: Some(sample), extra_keys: vec![] })
}

/// Several DIFFERENT data directories are processed in a generated order by the same user: same HOME, same TMPDIR,
/// and the same spelling of the directories on the command line (relative names, each run started in its own working
/// directory). Whatever a run keeps outside its dump folder must not leak into the result of a run over another
/// data directory: every run is compared with the model of ITS chain.
#[derive(Clone, Debug, Serialize, Deserialize)]
pub struct TwoDirCase {
    pub chains: Vec<ChainSpec>,
    /// per directory: number of extra write sessions of its index (several log / table files), small write buffer
    pub sessions: Vec<u8>,
    /// the directories visited, in order (indices into `chains`, taken modulo its length)
    pub order: Vec<u8>,
    pub cb: Callback,
    /// this directory's index holds a block record whose value is cut short: every run over it fails while the index is
    /// read (must exit non-zero and leave no final-named file) - and must not disturb the runs over the other directories
    #[serde(default)]
    pub broken: Option<u8>,
}

pub fn check_two_dirs(c: &TwoDirCase) -> Verdict {
    let builts: Vec<vpmodel::spec::Built> = c.chains.iter().map(|ch| ch.build()).collect();
    let mut worlds = Vec::new();
    for (k, b) in builts.iter().enumerate() {
        let mut p = canonical_plan(b.coin, &b.blocks);
        let sess = c.sessions.get(k).copied().unwrap_or(0);
        p.ldb_reopens = sess % 4;
        p.ldb_small_buffer = sess & 4 != 0;
        p.ldb_history = sess & 8 != 0;
        if c.broken.map(|x| x as usize % builts.len()) == Some(k) {
            let mut key = vec![b'b'];
            key.extend([0x77u8; 32]);
            p.raw_kv.push((key, vec![0x80, 0x80]));
        }
        worlds.push(infra!(World::create("c13m", &mut p)));
    }
    let shared = worlds[0].scratch.path.join("user");
    let mut runs = 0;
    for (n, pick) in c.order.iter().enumerate() {
        let k = *pick as usize % worlds.len();
        let (w, built) = (&worlds[k], &builts[k]);
        let mut o = RunOpts::new(built.coin, c.cb);
        o.path_style = 1;
        o.state_dir = Some(shared.clone());
        let out = infra!(w.run(&o));
        runs += 1;
        if let Some(v) = timed_out_is_infra(&out) {
            return v;
        }
        if c.broken.map(|x| x as usize % builts.len()) == Some(k) {
            if out.ok() || !out.final_files().is_empty() {
                return Verdict::Fail(format!("run #{} over the directory whose index holds a truncated block record: exit ok = {}, final-named files {:?}", n + 1, out.ok(), out.final_files()));
            }
            continue;
        }
        let all = built.all();
        holds!(check_callback(c.cb, built.coin, &all, &out, 0).map_err(|m| format!("run #{} (data directory {} of {}, {}) after runs over other data directories with the same HOME / TMPDIR / -d spelling (order {:?}): {}", n + 1, k, worlds.len(), c.cb.cli(), c.order, m)));
    }
    let classes = vec![format!("cb={}", c.cb.cli()), format!("directories={}", worlds.len()), format!("max-index-sessions={}", c.sessions.iter().map(|s| s % 4 + 1).max().unwrap_or(1))];
    let sample = serde_json::json!({"coins": builts.iter().map(|b| b.coin.cli()).collect::<Vec<_>>(), "tips": builts.iter().map(|b| b.tip()).collect::<Vec<_>>(), "callback": c.cb.cli(), "order": c.order});
    Verdict::Pass(Pass { nontrivial: worlds.len() >= 2 && c.order.len() >= 3, key: key_of(c), classes, known: vec![], sub_evals: runs, sample: Some(sample), extra_keys: vec![] })
}

/// The same data directory, holding competing index records (stale siblings, failed blocks, reorged-out
/// branches with data in another blk file, header-only records), is processed by several fresh processes:
/// whatever the tool delivers (known finding D7 of C04 makes that the key-order winner, not always the
/// active block), it must deliver the same thing every time.
pub fn check_repeat(c: &crate::c04::Case) -> Verdict {
    let built = c.chain.build();
    let crate::c04::Prepared { mut plan, pattern, interesting, .. } = crate::c04::prepare(c, &built);
    let w = infra!(World::create("c13p", &mut plan));
    let mut o = RunOpts::new(built.coin, c.cb);
    let mut first: Option<(bool, String)> = None;
    let reps = 6;
    for k in 0..reps {
        o.threads = Some([1, 4, 2, 16, 3, 8][k % 6]);
        let out = infra!(w.run(&o));
        if let Some(v) = timed_out_is_infra(&out) {
            return v;
        }
        let cur = (out.ok(), canon(c.cb, &out));
        match &first {
            None => first = Some(cur),
            Some(f) => {
                if *f != cur {
                    return Verdict::Fail(format!("process #{} of {} on the same data directory (extra index records {:?}) produced a different {} result than process #1 (exit ok: {} vs {})", k + 1, reps, pattern, c.cb.cli(), cur.0, f.0));
                }
            }
        }
    }
    let mut pattern = pattern;
    pattern.sort();
    let classes: Vec<String> = pattern.iter().map(|p| format!("extra={}", p)).chain(std::iter::once(format!("cb={}", c.cb.cli()))).collect();
    let sample = serde_json::json!({"coin": built.coin.cli(), "tip": built.tip(), "extras": pattern, "callback": c.cb.cli(), "processes": reps});
    Verdict::Pass(Pass { nontrivial: interesting, key: key_of(c), classes, known: vec![], sub_evals: reps as u64, sample: Some(sample), extra_keys: vec![] })
}

fn run(eng: &Engine, a: &Args) {
    let (nt, nr) = if a.tier == Tier::Quick { (32, 80) } else { (400, 800) };
    let tier = a.tier;
    eng.explore("same-directory-repeated", scaled(if a.tier == Tier::Quick { 64 } else { 800 }, a), move || crate::c04::strategy(tier), check_repeat);
    eng.explore("two-directories-one-user", scaled(if a.tier == Tier::Quick { 48 } else { 600 }, a), move || {
        let cfg = chain_cfg(tier, false);
        (proptest::collection::vec(gen::chain(&cfg), 2..=4), proptest::collection::vec(0u8..16, 4), proptest::collection::vec(0u8..4, 4..=8), proptest::sample::select(ALL_CALLBACKS.to_vec()), any::<bool>()).prop_map(|(mut chains, sessions, order, cb, same_coin): (Vec<ChainSpec>, Vec<u8>, Vec<u8>, Callback, bool)| {
            if same_coin {
                let c0 = chains[0].coin;
                for ch in chains.iter_mut() {
                    ch.coin = c0;
                }
            }
            { let broken = if sessions[3] % 3 == 0 { Some(sessions[2]) } else { None }; TwoDirCase { chains, sessions, order, cb, broken } }
        }).boxed()
    }, check_two_dirs);
    eng.explore("threads", scaled(nt, a), move || thread_strategy(tier), check_threads);
    // a block of 64 transactions whose 41st carries a 4.5 MB script (per-worker buffers that are reused across the
    // transactions of one split must not carry anything over): all thread settings, csvdump and unspentcsvdump
    let mut scripts: Vec<Vec<u8>> = (0..64usize).map(|i| { let mut s = vec![0x76, 0xa9, 0x14]; s.extend([0x40 + i as u8; 20]); s.extend([0x88, 0xac]); s }).collect();
    scripts[40] = { let mut s = vec![0x6a]; s.extend((0..4_500_000u32).map(|k| (k % 239) as u8)); s };
    let big = vpmodel::spec::chain_from_scripts(vpmodel::chain::Coin::Bitcoin, &scripts, &[1500, 7], 1, 64, 0, 1_400_000_000);
    eng.enumerate("threads-large-transaction", vec![ThreadCase { chain: big, second: Callback::UnspentCsvDump }], check_threads);
    eng.explore("reruns", scaled(nr, a), move || rerun_strategy(tier), check_reruns);
}

fn replay(part: &str, case: serde_json::Value) -> Option<Verdict> {
    match part {
        "threads" | "threads-large-transaction" => Some(check_threads(&serde_json::from_value(case).ok()?)),
        "reruns" => Some(check_reruns(&serde_json::from_value(case).ok()?)),
        "same-directory-repeated" => Some(check_repeat(&serde_json::from_value(case).ok()?)),
        "two-directories-one-user" => Some(check_two_dirs(&serde_json::from_value(case).ok()?)),
        _ => None,
    }
}
