//! C07 - unspentcsvdump lists exactly the unspent, address-bearing outputs of the range.
//! C08 - balances lists each address once with the sum of its unspent outputs.
use crate::common::*;
use crate::{holds, infra, scaled, Args, PropDef};
use proptest::prelude::*;
use serde::{Deserialize, Serialize};
use vpmodel::chain::Coin;
use vpmodel::datadir::canonical_plan;
use vpmodel::engine::{Engine, Pass, Verdict};
use vpmodel::gen::{self, Tier, BS};
use vpmodel::hashes::hash160;
use vpmodel::oracle::{aggregate_unspent, balances_rowset, check_balances, check_unspent};
use vpmodel::run::{Callback, RunOpts};
use vpmodel::spec::{mono, BlockSpec, ChainSpec, InSpec, OutSpec, Src, TxSpec};

pub const C07: PropDef = PropDef {
    id: "C07",
    level: "exploration",
    rule: "part 'small-histories' (bounded-exhaustive): every history of <=2 non-coinbase transactions over <=2 blocks, each with 1..2 inputs drawn from all outputs created so far (same block included, the same output twice, an outpoint unknown to the range), or being a verbatim duplicate of an earlier transaction (identical txid, also inside one block, also after its outputs were spent), and outputs that do or do not carry an address (quick: one output per tx; thorough: 1..2 outputs per tx, plus all 3-transaction single-block histories), with and without --start 1; part 'random-histories': chains up to 25 blocks and hundreds of transactions with fan-in/fan-out, same-block spends, unknown outpoints, zero values, duplicate coinbases (identical txid), transactions with >255 outputs whose high indices are spent, on all 8 coins with random ranges; part 'large-utxo-set': two histories whose final UTXO set has 70 000 / 131 500 rows and one with a single transaction of 66 000 outputs (indices beyond 16 bits). Oracle: unspent-S-E.csv = header once + exactly the row set of the reference UTXO map (remove inputs, then insert address-bearing outputs, per tx in block order; same outpoint replaces), no duplicates. Non-trivial = at least one in-range spend of an in-range output and at least one address-less output; distinct by history hash. A quarter of the random histories sit at base heights up to 2^31 (segment chains).",
    assumptions: &["row order is unspecified (hash-map order): rows are compared as a set"],
    run: run_c07,
    replay: replay_c07,
};

pub const C08: PropDef = PropDef {
    id: "C08",
    level: "exploration",
    rule: "the histories of C07 with a small pool of keys so that addresses recur (many outputs per address, the same key paid as P2PK and P2PKH, addresses emptied and re-funded), values bounded so that sums fit u64 (a fifth of the histories carry 1..3 outputs of 3*10^18..1.6*10^19 units paid to one key, so that 20-digit balances occur); plus two histories with 70 000 / 131 500 unspent outputs over 7 addresses. Oracle 1: balances-S-E.csv = header + exactly one row per address of the reference aggregation (exact u128 sums); oracle 2 (model-free): the per-address aggregation of the unspent-S-E.csv produced by unspentcsvdump on the same directory and range equals the balances file. Non-trivial = some address with >=2 unspent outputs and some address that was funded and is fully spent; distinct by history hash. A quarter of the random histories sit at base heights up to 2^31 (segment chains).",
    assumptions: &["value sums fit u64 (generator bound)", "an address whose unspent outputs are all zero-valued is listed with balance 0, as the statement says"],
    run: run_c08,
    replay: replay_c08,
};

#[derive(Clone, Debug, Serialize, Deserialize)]
pub struct Case {
    pub chain: ChainSpec,
    pub start_sel: Option<u16>,
    pub end_sel: Option<u16>,
}

fn key(i: u8) -> Vec<u8> {
    let mut k = vec![0x02 + (i & 1)];
    k.extend(vpmodel::hashes::sha256(&[i, 0x77]).iter());
    k
}

/// pool script j for key i: the same key paid in several ways, plus address-less shapes
fn pool_script(coin: Coin, i: u8, form: u8) -> Vec<u8> {
    let k = key(i);
    let h = hash160(&k);
    match form % 8 {
        0 | 1 => {
            let mut s = vec![0x76, 0xa9, 0x14];
            s.extend(h);
            s.extend([0x88, 0xac]);
            s
        }
        2 => {
            let mut s = vec![33];
            s.extend(&k);
            s.push(0xac);
            s
        }
        3 => {
            let mut s = vec![0xa9, 0x14];
            s.extend(h);
            s.push(0x87);
            s
        }
        4 if coin.is_btc() => {
            let mut s = vec![0x00, 0x14];
            s.extend(h);
            s
        }
        4 => {
            // fork coins: P2PKH with a PUSHDATA1 slot (same address as form 0)
            let mut s = vec![0x76, 0xa9, 0x4c, 0x14];
            s.extend(h);
            s.extend([0x88, 0xac]);
            s
        }
        5 => vec![0x6a, 0x04, b'd', b'a', b't', i],
        6 => {
            let mut s = vec![0x51, 33];
            s.extend(&k);
            s.extend([0x51, 0xae]);
            s
        }
        _ => vec![0x51 + (i & 7)],
    }
}

fn pool(coin: Coin, nkeys: u8) -> BS<Vec<u8>> {
    (0..nkeys, any::<u8>()).prop_map(move |(i, f)| pool_script(coin, i, f)).boxed()
}

pub fn random_strategy(tier: Tier, few_keys: bool) -> BS<Case> {
    gen::any_coin()
        .prop_flat_map(move |coin| {
            let script = if few_keys { pool(coin, 5) } else { prop_oneof![5 => pool(coin, 40), 2 => gen::ordinary_script(tier)].boxed() };
            let mut cfg = gen::ChainCfg::new(tier, script);
            cfg.coin = Just(coin).boxed();
            cfg.nblocks = prop_oneof![4 => 1usize..6, 3 => 6usize..15, 1 => 15usize..25].boxed();
            cfg.ntx = prop_oneof![2 => Just(0usize), 6 => 1usize..6, 1 => 6usize..30].boxed();
            cfg.dup_coinbase = true;
            cfg.tx.max_common = 4;
            cfg.tx.big_counts = !few_keys;
            cfg.tx.max_value = 2_100_000_000_000_000 / 4;
            // null / half-null outpoints in any input position: a transaction that merely starts with a coinbase-shaped input still spends through its other inputs
            cfg.tx.src = prop_oneof![20 => any::<u16>().prop_map(Src::Known), 4 => (60_000u16..=u16::MAX).prop_map(Src::Known), 2 => (any::<u8>(), 0u32..3).prop_map(|(s, i)| Src::Unknown(s, i)), 2 => Just(Src::Null), 1 => prop_oneof![Just(0u32), Just(0xffff_fffeu32)].prop_map(Src::ZeroTxid), 1 => any::<u8>().prop_map(|s| Src::Unknown(s, 0xffff_ffff))].boxed();
            cfg.time = gen::monotonic_time();
            // creation heights of up to 10 digits (segment chains; the run then starts at the first indexed height)
            cfg.base = prop_oneof![6 => Just(0u64).boxed(), 2 => gen::wide_base()].boxed();
            let huge = proptest::option::weighted(0.2, (10_000_000_000_000_000_000u64..=16_000_000_000_000_000_000u64, 1u8..=3, any::<[u16; 3]>(), 0u8..5, any::<u8>()));
            (gen::chain(&cfg), proptest::option::weighted(0.35, any::<u16>()), proptest::option::weighted(0.35, any::<u16>()), huge).prop_map(move |(mut chain, start_sel, end_sel, huge)| {
                if let Some((total, parts, sel, key, form)) = huge {
                    chain = with_huge_values(chain, total, parts, sel, pool_script(coin, key, form % 4));
                }
                Case { chain, start_sel, end_sel }
            })
        })
        .boxed()
}

/// Gives 1..3 outputs of the history values that add up to `total` (10^19 .. 1.6*10^19: a 20-digit balance
/// that still fits u64) and pays them to one script. The change is dropped when the sum of ALL output values
/// of the built chain (duplicates counted) would no longer fit u64.
fn with_huge_values(chain: ChainSpec, total: u64, parts: u8, sel: [u16; 3], script: Vec<u8>) -> ChainSpec {
    let mut c = chain.clone();
    let mut pos = Vec::new();
    for (bi, b) in c.blocks.iter().enumerate() {
        if b.coinbase.outputs.len() > 1000 || b.txs.iter().any(|t| t.outputs.len() > 1000) {
            return chain;
        }
        for oi in 0..b.coinbase.outputs.len() {
            pos.push((bi, usize::MAX, oi));
        }
        for (ti, t) in b.txs.iter().enumerate() {
            if t.dup_of.is_none() {
                for oi in 0..t.outputs.len() {
                    pos.push((bi, ti, oi));
                }
            }
        }
    }
    if pos.is_empty() {
        return chain;
    }
    let parts = parts.max(1) as u64;
    for k in 0..parts {
        let (bi, ti, oi) = pos[mono(sel[k as usize], pos.len())];
        let o = if ti == usize::MAX { &mut c.blocks[bi].coinbase.outputs[oi] } else { &mut c.blocks[bi].txs[ti].outputs[oi] };
        o.value = total / parts + if k == 0 { total % parts } else { 0 };
        o.script = script.clone();
    }
    let built = c.build();
    let sum: u128 = built.blocks.iter().flat_map(|(_, b)| b.txs.iter()).flat_map(|t| t.outputs.iter()).map(|o| o.value as u128).sum();
    if sum > u64::MAX as u128 {
        return chain;
    }
    c
}

/// bounded-exhaustive small histories
pub fn small_histories(k: usize, max_blocks: usize, rich: bool) -> Vec<Case> {
    // state: list of txs per block (two blocks), number of outputs created so far
    struct St {
        blocks: Vec<Vec<TxSpec>>,
        outs: usize,
    }
    fn cb(i: u8) -> TxSpec {
        TxSpec { version: 1, locktime: 0, inputs: vec![InSpec { src: Src::Null, script_sig: vec![1, i], sequence: 0xffff_ffff, witness: vec![] }], outputs: vec![OutSpec { value: 50, script: pool_script(Coin::Bitcoin, i, 0) }], segwit: false, dup_of: None }
    }
    fn known(j: usize, len: usize) -> Src {
        Src::Known((((j as u64) * 65536 + len as u64 - 1) / len as u64) as u16)
    }
    let mut out = Vec::new();
    // enumerate: for each number of txs n in 0..=k, each split point (how many go to block 0), recursively each tx shape
    fn rec(st: &mut St, remaining_in_b0: usize, remaining_in_b1: usize, nblocks: usize, rich: bool, acc: &mut Vec<ChainSpec>) {
        if remaining_in_b0 == 0 && remaining_in_b1 == 0 {
            let blocks: Vec<BlockSpec> = (0..nblocks).map(|b| BlockSpec { version: 1, time: 1_300_000_000 + b as u32, bits: 0, nonce: b as u32, auxpow: None, coinbase: cb(b as u8), txs: st.blocks[b].clone(), dup_coinbase: None }).collect();
            acc.push(ChainSpec { coin: Coin::Bitcoin, base: 0, real_genesis: false, blocks });
            return;
        }
        let (b, r0, r1) = if remaining_in_b0 > 0 { (0usize, remaining_in_b0 - 1, remaining_in_b1) } else { (1usize, 0, remaining_in_b1 - 1) };
        // outputs visible so far: coinbase of block 0 (1) + (if in block 1) coinbase of block 1 + earlier txs
        let first_in_b1 = b == 1 && st.blocks[1].is_empty();
        if first_in_b1 {
            st.outs += 1; // coinbase of block 1 is created before its txs
        }
        let len = st.outs;
        // input choices: each earlier output, or unknown
        let mut choices: Vec<Src> = (0..len).map(|j| known(j, len)).collect();
        choices.push(Src::Unknown(9, 0));
        let mut input_sets: Vec<Vec<Src>> = choices.iter().map(|c| vec![c.clone()]).collect();
        for a in 0..choices.len() {
            for c in a..choices.len() {
                input_sets.push(vec![choices[a].clone(), choices[c].clone()]);
            }
        }
        let all_kinds: [&[u8]; 6] = [&[0], &[5], &[0, 0], &[0, 5], &[5, 0], &[5, 5]];
        let out_kinds: &[&[u8]] = if rich { &all_kinds } else { &all_kinds[..2] };
        for ins in &input_sets {
            for ok in out_kinds.iter() {
                let tx = TxSpec {
                    version: 1,
                    locktime: 0,
                    inputs: ins.iter().map(|s| InSpec { src: s.clone(), script_sig: vec![], sequence: 0, witness: vec![] }).collect(),
                    outputs: ok.iter().enumerate().map(|(n, f)| OutSpec { value: 10 + n as u64, script: pool_script(Coin::Bitcoin, (st.outs + n) as u8, *f) }).collect(),
                    segwit: false,
                    dup_of: None,
                };
                st.blocks[b].push(tx);
                st.outs += ok.len();
                rec(st, r0, r1, nblocks, rich, acc);
                st.outs -= ok.len();
                st.blocks[b].pop();
            }
        }
        // a verbatim duplicate of an earlier non-coinbase transaction (identical txid; its outputs
        // are created again, possibly after they were spent)
        let originals: Vec<usize> = st.blocks.iter().flatten().filter(|t| t.dup_of.is_none()).map(|t| t.outputs.len()).collect();
        for (j, nout) in originals.iter().enumerate() {
            let sel = (((j as u64) * 65536 + originals.len() as u64 - 1) / originals.len() as u64) as u16;
            let tx = TxSpec { version: 1, locktime: 0, inputs: vec![], outputs: vec![], segwit: false, dup_of: Some(sel) };
            st.blocks[b].push(tx);
            st.outs += nout;
            rec(st, r0, r1, nblocks, rich, acc);
            st.outs -= nout;
            st.blocks[b].pop();
        }
        if first_in_b1 {
            st.outs -= 1;
        }
    }
    let mut chains = Vec::new();
    for n in 0..=k {
        for in_b0 in 0..=n {
            let in_b1 = n - in_b0;
            for nblocks in 1..=max_blocks {
                if nblocks == 1 && in_b1 > 0 {
                    continue;
                }
                let mut st = St { blocks: vec![vec![], vec![]], outs: 1 };
                // when there are two blocks but block 1 has no txs its coinbase still exists (irrelevant to inputs)
                rec(&mut st, in_b0, in_b1, nblocks, rich, &mut chains);
            }
        }
    }
    for c in chains {
        let two = c.blocks.len() == 2;
        out.push(Case { chain: c.clone(), start_sel: None, end_sel: None });
        if two {
            out.push(Case { chain: c, start_sel: Some(0x8000), end_sel: None });
        }
    }
    out
}

/// a history whose final UTXO set exceeds 65 536 rows (a few recurring addresses), for
/// implementations that treat large sets differently (chunking, parallel aggregation)
pub fn large_cases() -> Vec<Case> {
    let mut v = Vec::new();
    for (coin, n) in [(Coin::Bitcoin, 70_000usize), (Coin::Litecoin, 131_500usize), (Coin::Namecoin, 310_000usize)] {
        let scripts: Vec<Vec<u8>> = (0..n).map(|i| pool_script(coin, (i % 7) as u8, ((i / 7) % 5) as u8)).collect();
        let values: Vec<u64> = (0..97u64).map(|k| 1 + k * k * 1000).collect();
        let chain = vpmodel::spec::chain_from_scripts(coin, &scripts, &values, 250, 40, 0, 1_400_000_000);
        v.push(Case { chain, start_sel: None, end_sel: None });
    }
    // one transaction with 66 000 outputs: output indices beyond 16 bits
    let scripts: Vec<Vec<u8>> = (0..66_400usize).map(|i| pool_script(Coin::Dogecoin, (i % 11) as u8, ((i / 11) % 5) as u8)).collect();
    v.push(Case { chain: vpmodel::spec::chain_from_scripts(Coin::Dogecoin, &scripts, &[5, 7, 11_000], 66_000, 3, 0, 1_400_000_000), start_sel: None, end_sel: None });
    v
}

struct Analysis {
    spend_in_range: bool,
    addrless: bool,
    multi_out_addr: bool,
    emptied_addr: bool,
    dup_txid: bool,
    high_index_spend: bool,
    same_block_spend: bool,
}

fn analyse(coin: Coin, range: &[(u64, &vpmodel::chain::Block)]) -> Analysis {
    use std::collections::{HashMap, HashSet};
    let mut created: HashMap<([u8; 32], u32), (u64, Option<String>)> = HashMap::new();
    let mut a = Analysis { spend_in_range: false, addrless: false, multi_out_addr: false, emptied_addr: false, dup_txid: false, high_index_spend: false, same_block_spend: false };
    let mut seen_txids = HashSet::new();
    let mut funded: HashSet<String> = HashSet::new();
    for (h, b) in range {
        for tx in &b.txs {
            for i in &tx.inputs {
                if let Some((ch, _)) = created.get(&(i.prev_txid, i.prev_index)) {
                    a.spend_in_range = true;
                    if i.prev_index >= 256 {
                        a.high_index_spend = true;
                    }
                    if ch == h {
                        a.same_block_spend = true;
                    }
                }
            }
            let txid = tx.txid();
            if !seen_txids.insert(txid) {
                a.dup_txid = true;
            }
            for (n, o) in tx.outputs.iter().enumerate() {
                let addr = vpmodel::script::expect_for(coin, &o.script).address;
                if addr.is_none() {
                    a.addrless = true;
                } else {
                    funded.insert(addr.clone().unwrap());
                }
                created.insert((txid, n as u32), (*h, addr));
            }
        }
    }
    let utxo = vpmodel::render::utxo_set(coin, range);
    let mut per: HashMap<&str, usize> = HashMap::new();
    for u in utxo.values() {
        *per.entry(u.address.as_str()).or_insert(0) += 1;
    }
    a.multi_out_addr = per.values().any(|n| *n >= 2);
    a.emptied_addr = funded.iter().any(|f| !per.contains_key(f.as_str()));
    a
}

fn range_for(c: &Case, built: &vpmodel::spec::Built) -> (u64, Option<u64>, u64) {
    let (base, tip) = (built.base(), built.tip());
    let n = tip - base + 1;
    let s = base + c.start_sel.map(|x| (x as u64 * n) >> 16).unwrap_or(0);
    let end = c.end_sel.map(|x| s + 1 + ((x as u64 * (tip + 2 - s)) >> 16));
    let e = end.map(|x| x.min(tip)).unwrap_or(tip);
    (s, end, e)
}

pub fn check_c07(c: &Case) -> Verdict {
    let built = c.chain.build();
    let (s, end, e) = range_for(c, &built);
    let mut plan = canonical_plan(built.coin, &built.blocks);
    let w = infra!(World::create("c07", &mut plan));
    let mut o = RunOpts::new(built.coin, Callback::UnspentCsvDump);
    o.start = if s > 0 { Some(s) } else { None };
    o.end = end;
    let out = infra!(w.run(&o));
    if let Some(v) = timed_out_is_infra(&out) {
        return v;
    }
    let range = range_of(&built.blocks, s, e);
    holds!(check_unspent(built.coin, &range, &out, s).map_err(|m| format!("range {}..={}: {}", s, e, m)));
    let a = analyse(built.coin, &range);
    let mut classes = vec![format!("ranged={}", c.start_sel.is_some() || c.end_sel.is_some())];
    for (f, n) in [(a.spend_in_range, "in-range-spend"), (a.addrless, "address-less-output"), (a.dup_txid, "duplicate-txid"), (a.high_index_spend, "spend-of-index>=256"), (a.same_block_spend, "same-block-spend")] {
        if f {
            classes.push(n.into());
        }
    }
    let sample = serde_json::json!({"coin": built.coin.cli(), "range": format!("{}..={}", s, e), "blocks": range.iter().take(4).map(|(h, b)| serde_json::json!({"height": h, "txs": b.txs.iter().take(5).map(|t| format!("{}in->{}out", t.inputs.len(), t.outputs.len())).collect::<Vec<_>>()})).collect::<Vec<_>>(), "utxo_rows": vpmodel::render::utxo_set(built.coin, &range).len()});
    Verdict::Pass(Pass { nontrivial: a.spend_in_range && a.addrless, key: key_of(c), classes, known: vec![], sub_evals: 1, sample: Some(sample), extra_keys: vec![] })
}

pub fn check_c08(c: &Case) -> Verdict {
    let built = c.chain.build();
    let (s, end, e) = range_for(c, &built);
    let mut plan = canonical_plan(built.coin, &built.blocks);
    let w = infra!(World::create("c08", &mut plan));
    let mut o = RunOpts::new(built.coin, Callback::Balances);
    o.start = if s > 0 { Some(s) } else { None };
    o.end = end;
    let out = infra!(w.run(&o));
    if let Some(v) = timed_out_is_infra(&out) {
        return v;
    }
    let range = range_of(&built.blocks, s, e);
    holds!(check_balances(built.coin, &range, &out, s).map_err(|m| format!("range {}..={}: {}", s, e, m)));
    // model-free: aggregate the actual unspent dump of the same directory and range
    let mut o2 = o.clone();
    o2.callback = Callback::UnspentCsvDump;
    let un = infra!(w.run(&o2));
    if !un.ok() {
        return Verdict::Fail(format!("unspentcsvdump failed on the same directory: {}", un.describe()));
    }
    let ufile = un.files.get(&format!("unspent-{}-{}.csv", s, e));
    let bfile = out.files.get(&format!("balances-{}-{}.csv", s, e));
    match (ufile, bfile) {
        (Some(u), Some(b)) => {
            let agg = holds!(aggregate_unspent(u));
            let bal = holds!(balances_rowset(b));
            if agg != bal {
                let missing: Vec<&String> = agg.difference(&bal).take(3).collect();
                let extra: Vec<&String> = bal.difference(&agg).take(3).collect();
                return Verdict::Fail(format!("balances file is not the per-address aggregation of the unspent dump of the same directory and range {}..={}: aggregation has {:?}, balances has {:?}", s, e, missing, extra));
            }
        }
        _ => return Verdict::Fail("expected unspent/balances files missing".into()),
    }
    let a = analyse(built.coin, &range);
    let mut classes = vec![format!("ranged={}", c.start_sel.is_some() || c.end_sel.is_some())];
    for (f, n) in [(a.multi_out_addr, "address-with>=2-utxos"), (a.emptied_addr, "address-fully-spent"), (a.spend_in_range, "in-range-spend")] {
        if f {
            classes.push(n.into());
        }
    }
    if vpmodel::render::balances(built.coin, &range).values().any(|v| *v >= 10_000_000_000_000_000_000u128) {
        classes.push("balance>=10^19".into());
    }
    let sample = serde_json::json!({"coin": built.coin.cli(), "range": format!("{}..={}", s, e), "balances": vpmodel::render::balances(built.coin, &range).iter().take(4).map(|(a, v)| format!("{};{}", a, v)).collect::<Vec<_>>()});
    Verdict::Pass(Pass { nontrivial: a.multi_out_addr && a.emptied_addr, key: key_of(c), classes, known: vec![], sub_evals: 2, sample: Some(sample), extra_keys: vec![] })
}

fn run_c07(eng: &Engine, a: &Args) {
    let (k, n) = if a.tier == Tier::Quick { (2, 300) } else { (3, 4000) };
    let _ = k;
    eng.enumerate("small-histories", small_histories(2, 2, a.tier == Tier::Thorough), check_c07);
    if a.tier == Tier::Thorough {
        eng.enumerate("small-histories-3tx-1block", small_histories(3, 1, false), check_c07);
    }
    let tier = a.tier;
    eng.explore("random-histories", scaled(n, a), move || random_strategy(tier, false), check_c07);
    eng.enumerate("large-utxo-set", large_cases(), check_c07);
}

fn run_c08(eng: &Engine, a: &Args) {
    let n = if a.tier == Tier::Quick { 300 } else { 4000 };
    let tier = a.tier;
    eng.explore("random-histories", scaled(n, a), move || random_strategy(tier, true), check_c08);
    eng.enumerate("large-utxo-set", large_cases(), check_c08);
    // the small histories that contain a verbatim duplicate transaction (all of them in the thorough tier)
    let dups: Vec<Case> = small_histories(2, 2, false).into_iter().filter(|c| c.chain.blocks.iter().any(|b| b.txs.iter().any(|t| t.dup_of.is_some()))).collect();
    eng.enumerate("small-histories-with-duplicates", dups, check_c08);
    if a.tier == Tier::Thorough {
        eng.enumerate("small-histories", small_histories(2, 2, true), check_c08);
    }
}

fn replay_c07(part: &str, case: serde_json::Value) -> Option<Verdict> {
    match part {
        "small-histories" | "small-histories-3tx-1block" | "random-histories" | "large-utxo-set" => Some(check_c07(&serde_json::from_value(case).ok()?)),
        _ => None,
    }
}

fn replay_c08(part: &str, case: serde_json::Value) -> Option<Verdict> {
    match part {
        "small-histories" | "random-histories" | "large-utxo-set" | "small-histories-with-duplicates" => Some(check_c08(&serde_json::from_value(case).ok()?)),
        _ => None,
    }
}
