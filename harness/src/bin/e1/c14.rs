//! C14 - no script or witness content can abort a run or disturb other rows.
use crate::common::*;
use crate::{infra, scaled, Args, PropDef};
use proptest::prelude::*;
use serde::{Deserialize, Serialize};
use std::collections::{BTreeSet, HashSet};
use vpmodel::datadir::canonical_plan;
use vpmodel::engine::{Engine, Pass, Verdict};
use vpmodel::gen::{self, Tier, BS};
use vpmodel::oracle::{check_callback, check_stats_with_open};
use vpmodel::render;
use vpmodel::run::{Callback, RunOpts, ALL_CALLBACKS};
use vpmodel::spec::{hexser, mono, ChainSpec};

pub const DEF: PropDef = PropDef {
    id: "C14",
    level: "exploration",
    rule: "a valid generated base chain (8 coins) in which 1..3 fields - scriptPubKey, scriptSig or a witness item - are replaced by bytes from the hostile classes (truncated pushes of every width, PUSHDATA4 with huge lengths, every leading opcode, invalid UTF-8 after OP_RETURN, witness-program lookalikes with illegal lengths, hundreds to thousands of pushes, multisig-like scripts with >255 pushes, raw bytes up to 10 KB quick / 100 KB thorough); all five callbacks are run at verbosity 0, -v or -vv (debug/trace logging formats the evaluated patterns). Oracle: exit 0 for every callback, and every row/figure not derived from the replaced field equals the reference model (scriptSig and witness are opaque: exact equality; for a replaced scriptPubKey the address column of that row, its unspent row, a zero balance row and its type count are masked). Non-trivial = the hostile bytes are not a recognised template; distinct by hostile bytes. 30 % of the cases run all five callbacks again with --verify -s 1: exit 0 and the result of the run without --verify.",
    assumptions: &["replaced outputs get value 0 so that balances of other addresses are unaffected", "txids are recomputed by the model (they legitimately change with non-witness bytes)"],
    run,
    replay,
};

#[derive(Clone, Copy, Debug, PartialEq, Eq, Serialize, Deserialize)]
pub enum Place {
    ScriptPubKey,
    ScriptSig,
    Witness,
}

#[derive(Clone, Debug, Serialize, Deserialize)]
pub struct Hostile {
    pub place: Place,
    #[serde(with = "hexser")]
    pub bytes: Vec<u8>,
    pub block: u16,
    pub tx: u16,
    pub slot: u16,
}

#[derive(Clone, Debug, Serialize, Deserialize)]
pub struct Case {
    pub chain: ChainSpec,
    pub hostile: Vec<Hostile>,
    /// number of -v flags (0 = info, 1 = debug, 2 = trace)
    #[serde(default)]
    pub verbose: u8,
    /// run with --verify (from height 1, so that any block 0 will do; the replaced fields are part of a consistent chain)
    #[serde(default)]
    pub verify: bool,
}

pub fn hostile_bytes(tier: Tier) -> BS<Vec<u8>> {
    prop_oneof![
        4 => gen::token_script(tier),
        3 => gen::mutated_template(tier),
        3 => gen::leading_opcode(tier),
        3 => gen::many_pushes(tier),
        2 => gen::t_witness(true),
        2 => gen::raw_script(tier),
        2 => (proptest::collection::vec(any::<u8>(), 1..60)).prop_map(|mut v| { v.insert(0, 0x6a); v }),
        1 => gen::t_multisig(),
        1 => gen::any_script(tier),
        1 => gen::well_known_script(),
    ].boxed()
}

pub fn strategy(tier: Tier) -> BS<Case> {
    let mut cfg = gen::ChainCfg::new(tier, gen::c16_script(tier));
    cfg.nblocks = (1usize..=5).boxed();
    cfg.ntx = prop_oneof![2 => Just(0usize), 6 => 1usize..4].boxed();
    cfg.tx.max_common = 3;
    cfg.time = gen::monotonic_time();
    let h = (prop_oneof![5 => Just(Place::ScriptPubKey), 2 => Just(Place::ScriptSig), 2 => Just(Place::Witness)], hostile_bytes(tier), any::<u16>(), any::<u16>(), any::<u16>()).prop_map(|(place, bytes, block, tx, slot)| Hostile { place, bytes, block, tx, slot });
    (gen::chain(&cfg), proptest::collection::vec(h, 1..=3), prop_oneof![3 => Just(0u8), 2 => Just(1u8), 1 => Just(2u8)], proptest::bool::weighted(0.3)).prop_map(|(chain, hostile, verbose, verify)| Case { chain, hostile, verbose, verify }).boxed()
}

/// applies the replacements; returns the modified spec and the hostile scriptPubKeys
fn apply(c: &Case) -> (ChainSpec, Vec<Vec<u8>>) {
    let mut spec = c.chain.clone();
    let mut spks = Vec::new();
    for h in &c.hostile {
        let nb = spec.blocks.len();
        let b = &mut spec.blocks[mono(h.block, nb)];
        b.dup_coinbase = None;
        let ntx = 1 + b.txs.len();
        let ti = mono(h.tx, ntx);
        let tx = if ti == 0 { &mut b.coinbase } else { &mut b.txs[ti - 1] };
        match h.place {
            Place::ScriptPubKey => {
                let n = tx.outputs.len();
                let o = &mut tx.outputs[mono(h.slot, n)];
                o.script = h.bytes.clone();
                o.value = 0;
                spks.push(h.bytes.clone());
            }
            Place::ScriptSig => {
                let n = tx.inputs.len();
                tx.inputs[mono(h.slot, n)].script_sig = h.bytes.clone();
            }
            Place::Witness => {
                let n = tx.inputs.len();
                tx.segwit = true;
                let i = &mut tx.inputs[mono(h.slot, n)];
                if i.witness.is_empty() {
                    i.witness.push(h.bytes.clone());
                } else {
                    let k = i.witness.len();
                    i.witness[(h.slot as usize) % k] = h.bytes.clone();
                }
            }
        }
    }
    (spec, spks)
}

pub fn check(c: &Case) -> Verdict {
    let (spec, spks) = apply(c);
    let built = spec.build();
    let coin = built.coin;
    let all = built.all();
    let hostile_set: HashSet<Vec<u8>> = spks.iter().cloned().collect();
    // rows derived from hostile scriptPubKeys
    let mut hrows: BTreeSet<String> = BTreeSet::new(); // "txid;index"
    let mut hpos: BTreeSet<(u64, String)> = BTreeSet::new(); // (height, txid) for opreturn lines
    for (h, b) in &built.blocks {
        for tx in &b.txs {
            let txid = vpmodel::hashes::rhex(&tx.txid());
            for (n, o) in tx.outputs.iter().enumerate() {
                if hostile_set.contains(&o.script) {
                    hrows.insert(format!("{};{}", txid, n));
                    hpos.insert((*h, txid.clone()));
                }
            }
        }
    }
    let mut plan = canonical_plan(coin, &built.blocks);
    let w = infra!(World::create("c14", &mut plan));
    let mut bins = vec![vpmodel::run::tool_bin()];
    if let Ok(r) = std::env::var("VP_TOOL_BIN_RELEASE") {
        bins.push(std::path::PathBuf::from(r));
    }
    let mut runs = 0;
    for (bk, bin) in bins.iter().enumerate() {
        for cb in ALL_CALLBACKS {
            let mut o = RunOpts::new(coin, cb);
            o.bin = Some(bin.clone());
            o.verbose = c.verbose;
            let out = infra!(w.run(&o));
            runs += 1;
            if let Some(v) = timed_out_is_infra(&out) {
                return v;
            }
            let ctx = format!("{} build, callback {}, hostile {:?}", if bk == 0 { "debug" } else { "release" }, cb.cli(), c.hostile.iter().map(|h| format!("{:?}:{}B:{}", h.place, h.bytes.len(), vpmodel::hashes::hex(&h.bytes[..h.bytes.len().min(24)]))).collect::<Vec<_>>());
            if !out.ok() {
                return Verdict::Fail(format!("{}: run did not complete with exit status 0: {}", ctx, out.describe()));
            }
            let res: Result<(), String> = if hrows.is_empty() {
                check_callback(cb, coin, &all, &out, 0)
            } else {
                match cb {
                    Callback::CsvDump => masked_csvdump(coin, &all, &out, &hrows),
                    Callback::UnspentCsvDump => masked_unspent(coin, &all, &out, &hrows),
                    Callback::Balances => masked_balances(coin, &all, &out, &hrows),
                    Callback::SimpleStats => check_stats_with_open(coin, &all, &out, &|s| hostile_set.contains(s)),
                    Callback::OpReturn => masked_opreturn(coin, &built, &out, &hostile_set, &hpos),
                }
            };
            if let Err(m) = res {
                return Verdict::Fail(format!("{}: {}", ctx, m));
            }
        }
    }
    // the same with --verify: a consistent chain stays consistent whatever bytes its scripts hold (the replaced
    // fields are covered by the txids and merkle roots the harness computes), so from height 1 on - any block 0
    // will do there - every callback must still complete, with the result of the run without --verify
    if c.verify && built.tip() >= 1 {
        for cb in ALL_CALLBACKS {
            let mut o = RunOpts::new(coin, cb);
            o.verbose = c.verbose;
            o.start = Some(1);
            let plain = infra!(w.run(&o));
            o.verify = true;
            let ver = infra!(w.run(&o));
            runs += 2;
            for r in [&plain, &ver] {
                if let Some(v) = timed_out_is_infra(r) {
                    return v;
                }
            }
            if !ver.ok() {
                return Verdict::Fail(format!("--verify -s 1, callback {}: run did not complete with exit status 0 on a consistent chain: {}", cb.cli(), ver.describe()));
            }
            if !plain.ok() || canon(cb, &plain) != canon(cb, &ver) {
                return Verdict::Fail(format!("--verify -s 1, callback {}: result differs from the run without --verify", cb.cli()));
            }
        }
    }
    let mut classes = vec![format!("coin={}", coin.cli()), format!("verbosity={}", c.verbose), format!("verify={}", c.verify && built.tip() >= 1)];
    let mut nontrivial = false;
    for h in &c.hostile {
        classes.push(format!("place={:?}", h.place));
        classes.push(format!("len={}", match h.bytes.len() { 0..=75 => "<=75", 76..=520 => "76-520", 521..=10_000 => "521-10k", _ => ">10k" }));
        let e = vpmodel::script::expect_for(coin, &h.bytes);
        let recognised = e.types.len() == 1 && e.types[0] != vpmodel::script::SType::NotRecognised && e.address.is_some();
        if !recognised {
            nontrivial = true;
        }
        if vpmodel::script::tokenize(&h.bytes, false).is_none() {
            classes.push("truncated-push".into());
        }
    }
    classes.sort();
    classes.dedup();
    let sample = serde_json::json!({"coin": coin.cli(), "hostile": c.hostile.iter().map(|h| serde_json::json!({"place": format!("{:?}", h.place), "len": h.bytes.len(), "head": vpmodel::hashes::hex(&h.bytes[..h.bytes.len().min(40)])})).collect::<Vec<_>>()});
    Verdict::Pass(Pass { nontrivial, key: key_of(&c.hostile.iter().map(|h| vpmodel::hashes::hex(&h.bytes)).collect::<Vec<_>>()), classes, known: vec![], sub_evals: runs, sample: Some(sample), extra_keys: vec![] })
}

fn key_of_row(l: &str) -> String {
    let mut it = l.split(';');
    format!("{};{}", it.next().unwrap_or(""), it.next().unwrap_or(""))
}

fn masked_csvdump(coin: vpmodel::chain::Coin, all: &[(u64, &vpmodel::chain::Block)], out: &vpmodel::run::RunOut, hrows: &BTreeSet<String>) -> Result<(), String> {
    let e = all.last().unwrap().0;
    let m = render::csvdump(coin, all);
    for (stem, want) in [("blocks", &m.blocks), ("transactions", &m.transactions), ("tx_in", &m.tx_in)] {
        let name = format!("{}-0-{}.csv", stem, e);
        let got = out.files.get(&name).ok_or_else(|| format!("{} missing", name))?;
        if String::from_utf8_lossy(got) != want.as_str() {
            return Err(format!("{} differs from the model: {}", name, vpmodel::oracle::first_diff(want, &String::from_utf8_lossy(got))));
        }
    }
    let name = format!("tx_out-0-{}.csv", e);
    let got = String::from_utf8_lossy(out.files.get(&name).ok_or_else(|| format!("{} missing", name))?).into_owned();
    let (gl, wl): (Vec<&str>, Vec<&str>) = (got.lines().collect(), m.tx_out.lines().collect());
    if gl.len() != wl.len() {
        return Err(format!("{} has {} rows, expected {}", name, gl.len(), wl.len()));
    }
    for (g, w) in gl.iter().zip(wl.iter()) {
        if hrows.contains(&key_of_row(w)) {
            let cut = |s: &str| s.rsplit_once(';').map(|x| x.0.to_string()).unwrap_or_default();
            if cut(g) != cut(w) {
                return Err(format!("row of the replaced output differs in a column other than the address: expected {:?} got {:?}", w, g));
            }
        } else if g != w {
            return Err(format!("row not derived from the replaced field differs: expected {:?} got {:?}", w, g));
        }
    }
    if out.files.len() != 4 {
        return Err(format!("unexpected dump folder content {:?}", out.files.keys().collect::<Vec<_>>()));
    }
    Ok(())
}

fn masked_unspent(coin: vpmodel::chain::Coin, all: &[(u64, &vpmodel::chain::Block)], out: &vpmodel::run::RunOut, hrows: &BTreeSet<String>) -> Result<(), String> {
    let e = all.last().unwrap().0;
    let name = format!("unspent-0-{}.csv", e);
    let got = String::from_utf8_lossy(out.files.get(&name).ok_or_else(|| format!("{} missing", name))?).into_owned();
    let mut lines: Vec<&str> = got.lines().collect();
    if lines.first() != Some(&render::UNSPENT_HEADER) {
        return Err("unspent file lacks its header".into());
    }
    lines.remove(0);
    let g: BTreeSet<String> = lines.iter().filter(|l| !hrows.contains(&key_of_row(l))).map(|s| s.to_string()).collect();
    let w: BTreeSet<String> = render::unspent_rows(coin, all).into_iter().filter(|l| !hrows.contains(&key_of_row(l))).collect();
    if g != w {
        return Err(format!("unspent rows of other outputs differ: missing {:?}, unexpected {:?}", w.difference(&g).take(2).collect::<Vec<_>>(), g.difference(&w).take(2).collect::<Vec<_>>()));
    }
    Ok(())
}

fn masked_balances(coin: vpmodel::chain::Coin, all: &[(u64, &vpmodel::chain::Block)], out: &vpmodel::run::RunOut, hrows: &BTreeSet<String>) -> Result<(), String> {
    let e = all.last().unwrap().0;
    let name = format!("balances-0-{}.csv", e);
    let got = String::from_utf8_lossy(out.files.get(&name).ok_or_else(|| format!("{} missing", name))?).into_owned();
    let mut lines: Vec<&str> = got.lines().collect();
    if lines.first() != Some(&render::BALANCES_HEADER) {
        return Err("balances file lacks its header".into());
    }
    lines.remove(0);
    // model without the replaced outputs
    let mut m: std::collections::BTreeMap<String, u128> = Default::default();
    for ((t, i), u) in render::utxo_set(coin, all) {
        if !hrows.contains(&format!("{};{}", vpmodel::hashes::rhex(&t), i)) {
            *m.entry(u.address).or_insert(0) += u.value as u128;
        }
    }
    let want: BTreeSet<String> = m.iter().map(|(a, v)| format!("{};{}", a, v)).collect();
    let g: BTreeSet<String> = lines.iter().map(|s| s.to_string()).collect();
    for r in &want {
        if !g.contains(r) {
            return Err(format!("balance row {} of an address not derived from the replaced field is missing or changed", r));
        }
    }
    for r in g.difference(&want) {
        if !r.ends_with(";0") {
            return Err(format!("unexpected balance row {}", r));
        }
    }
    Ok(())
}

fn masked_opreturn(coin: vpmodel::chain::Coin, built: &vpmodel::spec::Built, out: &vpmodel::run::RunOut, hostile: &HashSet<Vec<u8>>, hpos: &BTreeSet<(u64, String)>) -> Result<(), String> {
    // expected lines of all other outputs, in order
    let mut want: Vec<String> = Vec::new();
    for (h, b) in &built.blocks {
        for tx in &b.txs {
            let txid = vpmodel::hashes::rhex(&tx.txid());
            for o in &tx.outputs {
                if hostile.contains(&o.script) {
                    continue;
                }
                if let Ok(Some(t)) = vpmodel::script::opreturn_text(coin, &o.script) {
                    for l in format!("height: {: <9} txid: {}    data: {}", h, txid, t).split('\n') {
                        want.push(l.to_string());
                    }
                }
            }
        }
    }
    let so = vpmodel::parse::split_stdout(&out.stdout_text());
    let mut got: Vec<&str> = so.data.split('\n').collect();
    if got.last() == Some(&"") {
        got.pop();
    }
    // `want` must be a subsequence of `got`; leftover record heads must belong to replaced outputs
    let mut wi = 0;
    for l in &got {
        if wi < want.len() && *l == want[wi] {
            wi += 1;
        } else if l.starts_with("height: ") {
            let ok = hpos.iter().any(|(h, t)| l.starts_with(&format!("height: {: <9} txid: {}    data: ", h, t)));
            if !ok {
                return Err(format!("opreturn line that belongs to no replaced output and is not expected: {:?}", l));
            }
        }
    }
    if wi != want.len() {
        return Err(format!("opreturn line of another output missing or out of order: {:?}", want[wi]));
    }
    Ok(())
}

fn run(eng: &Engine, a: &Args) {
    let n = if a.tier == Tier::Quick { 200 } else { 3000 };
    let tier = a.tier;
    eng.explore("hostile-fields", scaled(n, a), move || strategy(tier), check);
}

fn replay(part: &str, case: serde_json::Value) -> Option<Verdict> {
    match part {
        "hostile-fields" => Some(check(&serde_json::from_value(case).ok()?)),
        _ => None,
    }
}
