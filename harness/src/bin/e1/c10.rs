//! C10 - exit status 0 means complete, final-named output; any failure leaves none.
use crate::common::*;
use crate::{infra, scaled, Args, PropDef};
use proptest::prelude::*;
use serde::{Deserialize, Serialize};
use std::path::PathBuf;
use vpmodel::engine::{Engine, Pass, Verdict};
use vpmodel::gen::{self, Tier, BS};
use vpmodel::layout::{FileSlot, Gap, LayoutSpec};
use vpmodel::oracle::check_callback;
use vpmodel::parse::error_height;
use vpmodel::run::{Callback, Inject, RunOpts, RunOut, Scratch, FILE_CALLBACKS};
use vpmodel::spec::{mono, ChainSpec};

pub const DEF: PropDef = PropDef {
    id: "C10",
    level: "fault_enumeration",
    rule: "fault plans applied to generated chains stored in 2..4 blk files, for the three file-producing callbacks. Enumerated part (fixed generated 6-block chain): every height x input fault {blk file removed, emptied, truncated at 7 positions of the block incl. inside the length prefix and at the last byte (thorough tier: at every byte of one block), index offset past EOF - just beyond the end, and 2^32 / 2^40 above the position of a real block}; 27 RLIMIT_FSIZE limits from 0 to above the largest output file (SIGXFSZ ignored, so writes fail with EFBIG) on an index pre-compacted to table files; ENOSPC injected (strace) at the k-th write to any dump file for k=1..8 and at the first and second write to each single dump file; SIGKILL injected on entry of the k-th openat/write/rename/close touching a dump file for k=1..6 each. Start-up failures {blockchain dir missing, index dir missing, index CURRENT naming a missing manifest, rejected range (--end <= --start), dump folder missing, dump folder path is a regular file}: exit != 0 and no final-named file. One enumerated chain produces > 4 MB per file so that writes fail mid-run, before the final flush. Random part: random chains, ranges and fault plans, a quarter of them into a dump folder that already holds longer stale *.tmp files of an earlier failed run. Oracles: (a) exit 0 => every expected final-named file present and byte-identical to the undisturbed run, no *.tmp; (b) input fault hitting a processed height h => exit != 0, 'Error at height h', no final-named file; (c) output fault that fires => exit != 0 and no final-named file; (d) kill at any point => every final-named file that exists is byte-identical to the undisturbed output. Non-trivial = the fault actually fired (for input/output faults: in the read/write path of the run, not at start-up); distinct by (callback, fault kind, position). A 125 000-address chain makes the balances (5 MB) and unspent (15 MB) tables exceed the 4 MB buffer: RLIMIT_FSIZE / ENOSPC / kill plans for both.",
    assumptions: &["crash points are syscall-granular (the directory can only change at syscalls); power loss / fsync ordering is outside the statement", "physical order inside a file equals height order, so the first height lost by a truncation is the truncated block's"],
    run,
    replay,
};

#[derive(Clone, Debug, Serialize, Deserialize, PartialEq)]
pub enum Fault {
    None,
    FileRemoved { h: u16 },
    FileEmptied { h: u16 },
    /// cut the file inside block h: `at` selects a position in [start of magic, end of block)
    Truncated { h: u16, at: u32 },
    /// alias 0: just past the end of the file; 1: the block's own offset + 2^32; 2: the next block's offset + 2^32
    /// (same file or not); 3: the block's own offset + 2^40 - all far beyond EOF, but equal to a real block
    /// position modulo 2^32 / 2^40
    OffsetPastEof {
        h: u16,
        #[serde(default)]
        alias: u8,
    },
    /// RLIMIT_FSIZE = max_output_size * num / den + delta
    Fsize { num: u32, den: u32, delta: i32 },
    Enospc {
        k: u32,
        /// restrict the injection to the k-th write to this one dump file (index into the callback's files)
        #[serde(default)]
        file: Option<u8>,
        /// which error the write returns: 0 ENOSPC, 1 EIO, 2 EPIPE, 3 EDQUOT, 4 EROFS, 5 EBADF (any failure of a
        /// write to an output file counts, not only a full disk)
        #[serde(default)]
        errno: u8,
    },
    Kill { syscall: String, k: u32 },
    /// the run cannot even start: 0 blockchain dir missing, 1 index dir missing, 2 rejected range (--end <= --start),
    /// 3 dump folder missing, 4 index CURRENT names a manifest that does not exist, 5 dump folder path is a regular file
    Startup { kind: u8 },
    /// --start above the tip (by 1 + beyond): nothing to process. Whatever the tool makes of it, exit status 0 must
    /// still mean one final-named file per output and no *.tmp, and a failure must leave no final-named file
    EmptyRange { beyond: u8 },
    /// the k-th rename of a temporary file to its final name fails (EIO injected): not one of the failures the
    /// statement's second sentence lists, so only its first sentence is demanded - exit status 0 still has to mean
    /// complete final-named output and no *.tmp
    RenameFail { k: u32 },
}

#[derive(Clone, Debug, Serialize, Deserialize)]
pub struct Case {
    pub chain: ChainSpec,
    pub nfiles: u8,
    pub cb: Callback,
    pub start: Option<u16>,
    pub end: Option<u16>,
    pub fault: Fault,
    /// the dump folder already holds longer *.tmp files left by an earlier failed run
    #[serde(default)]
    pub stale_tmp: bool,
}

fn layout_for(nfiles: usize, nblocks: usize) -> LayoutSpec {
    let nf = nfiles.max(1);
    let span = (nblocks + nf - 1) / nf;
    LayoutSpec {
        files: (0..nf).map(|k| FileSlot { number: k as u64, pad: 5 }).collect(),
        assign: (0..nblocks).map(|i| { let f = (i / span.max(1)).min(nf - 1); ((f * 65536 + nf - 1) / nf) as u16 }).collect(),
        order: vec![0],
        gaps: vec![Gap::None],
        lead: vec![Gap::None],
        xor: None,
        extras: Default::default(),
        ldb_small: true,
        ldb_reopens: 0,
        ldb_compact: true,
        ldb_history: false,
        xor_link: 0,
    }
}

const FOREIGN_TMP: &[u8] = b"txid;indexOut;height;value;address\n(temporary file of an interrupted run of another callback)\n";

fn foreign_stems(cb: Callback) -> Vec<&'static str> {
    FILE_CALLBACKS.iter().filter(|o| **o != cb).flat_map(|o| o.stems().iter().copied()).collect()
}

fn tmp_paths(cb: Callback, dump: &std::path::Path) -> Vec<PathBuf> {
    cb.stems().iter().map(|s| dump.join(format!("{}.csv.tmp", s))).collect()
}

struct Prepared {
    scratch: Scratch,
    data: PathBuf,
    /// expected failing height for an input fault (None: no processed block is affected)
    fail_height: Option<u64>,
    fired_possible: bool,
}

fn prepare(c: &Case, built: &vpmodel::spec::Built, s: u64, e: u64, with_fault: bool) -> Result<Prepared, String> {
    let nb = built.blocks.len();
    let l = layout_for(c.nfiles as usize, nb);
    let mut plan = l.to_plan(built);
    let scratch = Scratch::new("c10");
    let data = scratch.path.join("data");
    plan.write_files(&data)?;
    let mut fail_height = None;
    let mut fired_possible = false;
    let files: Vec<usize> = (0..nb).map(|i| l.file_of(i)).collect();
    let first_in_range_from = |file: usize, from_idx: usize| -> Option<u64> { (from_idx..nb).filter(|i| files[*i] == file).map(|i| built.blocks[i].0).find(|h| *h >= s && *h <= e) };
    if with_fault {
        match &c.fault {
            Fault::FileRemoved { h } | Fault::FileEmptied { h } => {
                let i = mono(*h, nb);
                let f = files[i];
                let name = plan.files.iter().find(|pf| pf.number == l.numbers()[f]).map(|pf| pf.name.clone()).ok_or("file not found")?;
                if matches!(c.fault, Fault::FileRemoved { .. }) {
                    std::fs::remove_file(data.join(&name)).map_err(|e| e.to_string())?;
                } else {
                    std::fs::write(data.join(&name), b"").map_err(|e| e.to_string())?;
                }
                fail_height = first_in_range_from(f, 0);
                fired_possible = true;
            }
            Fault::Truncated { h, at } => {
                let i = mono(*h, nb);
                let f = files[i];
                let rec = &plan.recs[i];
                let name = plan.files.iter().find(|pf| pf.number == rec.file).map(|pf| pf.name.clone()).ok_or("file not found")?;
                let blen = built.blocks[i].1.ser().len() as u64;
                let start = rec.data_pos - 8;
                let cut = start + ((*at as u64 * (blen + 8)) >> 32);
                let fh = std::fs::OpenOptions::new().write(true).open(data.join(&name)).map_err(|e| e.to_string())?;
                fh.set_len(cut).map_err(|e| e.to_string())?;
                fail_height = first_in_range_from(f, i);
                fired_possible = true;
            }
            Fault::OffsetPastEof { h, alias } => {
                let i = mono(*h, nb);
                let fsize = std::fs::metadata(data.join(plan.files.iter().find(|pf| pf.number == plan.recs[i].file).map(|pf| pf.name.clone()).ok_or("file not found")?)).map_err(|e| e.to_string())?.len();
                plan.recs[i].data_pos = match alias % 4 {
                    0 => fsize + 4 + (*h as u64 % 1000),
                    1 => plan.recs[i].data_pos + (1u64 << 32),
                    2 => plan.recs[(i + 1) % nb].data_pos + (1u64 << 32),
                    _ => plan.recs[i].data_pos + (1u64 << 40),
                };
                let hh = built.blocks[i].0;
                if hh >= s && hh <= e {
                    fail_height = Some(hh);
                }
                fired_possible = true;
            }
            _ => {}
        }
    }
    let no_index = with_fault && matches!(c.fault, Fault::Startup { kind: 1 });
    if !no_index {
        plan.write_index(&data.join("index"))?;
    }
    if with_fault && matches!(c.fault, Fault::Startup { kind: 4 }) {
        std::fs::write(data.join("index").join("CURRENT"), b"MANIFEST-999999\n").map_err(|e| e.to_string())?;
    }
    Ok(Prepared { scratch, data, fail_height, fired_possible })
}

pub fn check(c: &Case) -> Verdict {
    let built = c.chain.build();
    let nb = built.blocks.len();
    let tip = built.tip();
    let s = c.start.map(|x| (x as u64 * nb as u64) >> 16).unwrap_or(0);
    let end = c.end.map(|x| s + 1 + ((x as u64 * (tip + 2 - s)) >> 16));
    let e = end.map(|x| x.min(tip)).unwrap_or(tip);
    let mut o = RunOpts::new(built.coin, c.cb);
    o.start = if s > 0 { Some(s) } else { None };
    o.end = end;
    // undisturbed reference run
    let p0 = infra!(prepare(c, &built, s, e, false));
    let d0 = p0.scratch.sub("dump");
    let reference = infra!(vpmodel::run::run_tool(&p0.data, &d0, &o));
    if let Some(v) = timed_out_is_infra(&reference) {
        return v;
    }
    let range = range_of(&built.blocks, s, e);
    if let Err(m) = check_callback(c.cb, built.coin, &range, &reference, s) {
        return Verdict::Fail(format!("undisturbed run: {}", m));
    }
    let max_size = reference.files.values().map(|v| v.len() as u64).max().unwrap_or(0);
    // faulted run
    let p = infra!(prepare(c, &built, s, e, true));
    let mut dump = p.scratch.sub("dump");
    let mut data_dir = p.data.clone();
    match &c.fault {
        Fault::Startup { kind: 0 } => data_dir = p.scratch.path.join("no-such-blockchain-dir"),
        Fault::Startup { kind: 3 } => dump = p.scratch.path.join("no-such-dump-folder"),
        Fault::Startup { kind: 5 } => {
            dump = p.scratch.path.join("dump-is-a-file");
            infra!(std::fs::write(&dump, b"x").map_err(|e| e.to_string()));
        }
        _ => {}
    }
    let startup = matches!(c.fault, Fault::Startup { .. });
    if c.stale_tmp && !startup {
        let junk = vec![b'~'; (max_size as usize) * 2 + 100_000];
        for stem in c.cb.stems() {
            infra!(std::fs::write(dump.join(format!("{}.csv.tmp", stem)), &junk).map_err(|e| e.to_string()));
        }
        // ... and temporary files of the OTHER file-producing callbacks (an interrupted unspentcsvdump run, say): they are
        // not this run's to touch
        for stem in foreign_stems(c.cb) {
            infra!(std::fs::write(dump.join(format!("{}.csv.tmp", stem)), FOREIGN_TMP).map_err(|e| e.to_string()));
        }
    }
    let mut of = o.clone();
    let mut limit = None;
    match &c.fault {
        Fault::Fsize { num, den, delta } => {
            let l = ((max_size as u128 * *num as u128 / (*den).max(1) as u128) as i128 + *delta as i128).max(0) as u64;
            limit = Some(l);
            of.fsize = Some(l);
        }
        Fault::Enospc { k, file, errno } => {
            let all = tmp_paths(c.cb, &dump);
            let paths = match file {
                Some(f) => vec![all[*f as usize % all.len()].clone()],
                None => all,
            };
            of.inject = Some(Inject { syscall: "write".into(), action: format!("error={}", ["ENOSPC", "EIO", "EPIPE", "EDQUOT", "EROFS", "EBADF"][*errno as usize % 6]), when: *k as u64, paths, when_expr: None })
        }
        Fault::RenameFail { k } => of.inject = Some(Inject { syscall: "rename".into(), action: "error=EIO".into(), when: *k as u64, paths: tmp_paths(c.cb, &dump), when_expr: None }),
        Fault::Kill { syscall, k } => of.inject = Some(Inject { syscall: syscall.clone(), action: "signal=KILL".into(), when: *k as u64, paths: tmp_paths(c.cb, &dump), when_expr: None }),
        Fault::EmptyRange { beyond } => {
            of.start = Some(built.tip() + 1 + *beyond as u64);
            of.end = if c.stale_tmp { Some(built.tip() + 40 + *beyond as u64) } else { None };
        }
        Fault::Startup { kind: 2 } => {
            // --end below or equal to --start is rejected by the option parser
            let st = s.max(1);
            of.start = Some(st);
            of.end = Some(if c.stale_tmp { st } else { st - 1 });
        }
        _ => {}
    }
    let mut out = infra!(vpmodel::run::run_tool(&data_dir, &dump, &of));
    if c.stale_tmp && !startup {
        for stem in foreign_stems(c.cb) {
            let name = format!("{}.csv.tmp", stem);
            if out.files.get(&name).map(|v| v.as_slice()) != Some(FOREIGN_TMP) && out.signal != Some(9) {
                return Verdict::Fail(format!("fault {:?}: the run {} {}, a temporary file of another callback", c.fault, if out.files.contains_key(&name) { "rewrote" } else { "removed or renamed" }, name));
            }
            out.files.remove(&name);
            if let Some(f) = out.files.keys().find(|k| k.starts_with(&format!("{}-", stem))) {
                return Verdict::Fail(format!("fault {:?}: the run published {} - a file of another callback's output that it never wrote", c.fault, f));
            }
        }
    }
    if out.timed_out {
        return Verdict::Infra(format!("faulted run hit the watchdog: {}", out.describe()));
    }
    if of.inject.is_some() {
        let e = String::from_utf8_lossy(&out.stderr);
        if e.contains("strace: ") && (e.contains("Operation not permitted") || e.contains("PTRACE") || e.contains("ptrace(")) {
            return Verdict::Infra(format!("strace cannot trace in this environment: {}", out.describe()));
        }
    }
    let injected = String::from_utf8_lossy(&out.stderr).contains("(INJECTED)") || out.signal == Some(9);
    let stderr = out.stderr_text();
    let startup_failure = stderr.contains("Cannot load blockchain data");
    let identical = |o: &RunOut| o.ok() && canon(c.cb, o) == canon(c.cb, &reference) && o.tmp_files().is_empty();
    let finals_identical = |o: &RunOut| -> Result<(), String> {
        for n in o.final_files() {
            match reference.files.get(n) {
                Some(r) => {
                    let same = if c.cb == Callback::CsvDump { *r == o.files[n] } else { canon(c.cb, &RunOut { files: [(n.clone(), o.files[n].clone())].into_iter().collect(), ..o.clone() }) == canon(c.cb, &RunOut { files: [(n.clone(), r.clone())].into_iter().collect(), ..reference.clone() }) };
                    if !same {
                        return Err(format!("final-named file {} holds {} bytes, the undisturbed run's holds {} (partial or different content)", n, o.files[n].len(), r.len()));
                    }
                }
                None => return Err(format!("final-named file {} does not exist after the undisturbed run", n)),
            }
        }
        Ok(())
    };
    if let Fault::EmptyRange { .. } = &c.fault {
        let finals = out.final_files();
        if out.ok() {
            if !out.tmp_files().is_empty() {
                return Verdict::Fail(format!("--start above the tip: exit status 0 but temporary files remain: {:?}", out.tmp_files()));
            }
            for stem in c.cb.stems() {
                if !finals.iter().any(|n| n.starts_with(&format!("{}-", stem))) {
                    return Verdict::Fail(format!("--start above the tip: exit status 0 but no final-named {} file exists (dump folder: {:?})", stem, out.files.keys().collect::<Vec<_>>()));
                }
            }
        } else if !finals.is_empty() {
            return Verdict::Fail(format!("--start above the tip: failed run left final-named files {:?}", finals));
        }
        let classes = vec![format!("cb={}", c.cb.cli()), "fault=empty-range".to_string(), format!("exit0={}", out.ok())];
        return Verdict::Pass(Pass { nontrivial: true, key: key_of(c), classes, known: vec![], sub_evals: 2, sample: None, extra_keys: vec![] });
    }
    // (a) exit 0 always implies complete output
    if out.ok() && !identical(&out) {
        return Verdict::Fail(format!("fault {:?}: exit status 0 but the dump folder is not the complete output of an undisturbed run: files {:?} (reference {:?}); {}", c.fault, out.files.iter().map(|(n, v)| (n.clone(), v.len())).collect::<Vec<_>>(), reference.files.iter().map(|(n, v)| (n.clone(), v.len())).collect::<Vec<_>>(), finals_identical(&out).err().unwrap_or_default()));
    }
    let fired;
    match &c.fault {
        Fault::None => {
            if !out.ok() {
                return Verdict::Fail(format!("undisturbed run failed: {}", out.describe()));
            }
            fired = false;
        }
        Fault::FileRemoved { .. } | Fault::FileEmptied { .. } | Fault::Truncated { .. } | Fault::OffsetPastEof { .. } => match p.fail_height {
            Some(h) => {
                if out.ok() {
                    return Verdict::Fail(format!("input fault {:?} makes height {} unreadable, yet the run exited 0", c.fault, h));
                }
                if !out.final_files().is_empty() {
                    return Verdict::Fail(format!("input fault {:?} at height {}: failed run left final-named files {:?}", c.fault, h, out.final_files()));
                }
                match error_height(&stderr) {
                    Some(eh) if eh == h => {}
                    other => return Verdict::Fail(format!("input fault {:?}: expected 'Error at height {}', stderr reports {:?}: {}", c.fault, h, other, out.describe())),
                }
                fired = true;
            }
            None => {
                if !out.ok() {
                    return Verdict::Fail(format!("input fault {:?} touches no processed height ({}..={}), yet the run failed: {}", c.fault, s, e, out.describe()));
                }
                fired = false;
            }
        },
        Fault::Fsize { .. } => {
            let l = limit.unwrap();
            if l >= max_size {
                // the limit does not bite on the dump files; the LevelDB files the tool rewrites may
                // still exceed it, then the run fails at start-up - any outcome but a bad exit 0 is fine
                // (a final-named file may exist then, but never a partial one)
                if !out.ok() {
                    if let Err(m) = finals_identical(&out) {
                        return Verdict::Fail(format!("RLIMIT_FSIZE={} (not below any output file): {}", l, m));
                    }
                }
                fired = false;
            } else {
                if out.ok() {
                    return Verdict::Fail(format!("RLIMIT_FSIZE={} is below the largest output file ({} bytes), yet the run exited 0", l, max_size));
                }
                if !out.final_files().is_empty() {
                    return Verdict::Fail(format!("RLIMIT_FSIZE={} (largest output {} bytes): failed run (exit {:?}) left final-named files {:?}", l, max_size, out.code, out.final_files().iter().map(|n| (n.to_string(), out.files[*n].len())).collect::<Vec<_>>()));
                }
                fired = !startup_failure;
            }
        }
        Fault::Enospc { .. } => {
            if injected {
                if out.ok() {
                    return Verdict::Fail(format!("a write to a dump file failed with ENOSPC ({:?}), yet the run exited 0", c.fault));
                }
                if !out.final_files().is_empty() {
                    return Verdict::Fail(format!("a write to a dump file failed with ENOSPC ({:?}); the failed run left final-named files {:?}", c.fault, out.final_files()));
                }
                fired = true;
            } else {
                if !out.ok() {
                    return Verdict::Fail(format!("no fault was injected ({:?}), yet the run failed: {}", c.fault, out.describe()));
                }
                fired = false;
            }
        }
        Fault::EmptyRange { .. } => unreachable!("handled above"),
        Fault::RenameFail { .. } => {
            // rule (a) above is the whole demand
            fired = injected;
        }
        Fault::Startup { kind } => {
            if out.ok() {
                return Verdict::Fail(format!("start-up failure kind {} (no output can have been produced), yet the run exited 0: {}", kind, out.describe()));
            }
            if !out.final_files().is_empty() {
                return Verdict::Fail(format!("start-up failure kind {}: failed run left final-named files {:?}", kind, out.final_files()));
            }
            fired = true;
        }
        Fault::Kill { .. } => {
            if let Err(m) = finals_identical(&out) {
                return Verdict::Fail(format!("SIGKILL at {:?}: {}", c.fault, m));
            }
            if !injected && !out.ok() {
                return Verdict::Fail(format!("no kill was delivered ({:?}), yet the run failed: {}", c.fault, out.describe()));
            }
            fired = out.signal == Some(9);
        }
    }
    let _ = p.fired_possible;
    let kind = match &c.fault {
        Fault::None => "none".to_string(),
        Fault::FileRemoved { .. } => "file-removed".into(),
        Fault::FileEmptied { .. } => "file-emptied".into(),
        Fault::Truncated { .. } => "truncated".into(),
        Fault::OffsetPastEof { .. } => "offset-past-eof".into(),
        Fault::Fsize { .. } => "fsize-limit".into(),
        Fault::Enospc { .. } => "enospc".into(),
        Fault::Kill { syscall, .. } => format!("kill@{}", syscall),
        Fault::Startup { kind } => format!("startup-{}", kind),
        Fault::EmptyRange { .. } => "empty-range".into(),
        Fault::RenameFail { .. } => "rename-fails".into(),
    };
    let mut classes = vec![format!("cb={}", c.cb.cli()), format!("fault={}", kind), format!("fired={}", fired)];
    if max_size > 4_000_000 {
        classes.push("output>4MB".into());
    }
    if matches!(c.fault, Fault::Kill { .. }) && fired {
        classes.push(format!("finals-at-kill={}", out.final_files().len()));
    }
    let sample = serde_json::json!({"callback": c.cb.cli(), "fault": format!("{:?}", c.fault), "range": format!("{}..={}", s, e), "limit": limit, "largest_output": max_size, "fired": fired, "exit": out.code, "signal": out.signal, "files_after": out.files.iter().map(|(n, v)| format!("{}:{}", n, v.len())).collect::<Vec<_>>()});
    Verdict::Pass(Pass { nontrivial: fired, key: vpmodel::hashes::fnv64(format!("{}|{:?}|{}|{}|{}", c.cb.cli(), c.fault, s, e, nb).as_bytes()), classes, known: vec![], sub_evals: 2, sample: Some(sample), extra_keys: vec![] })
}

fn fixed_chain(seed: u64, nblocks: usize, fat: bool) -> ChainSpec {
    use proptest::strategy::ValueTree;
    use proptest::test_runner::{Config, RngAlgorithm, TestRng, TestRunner};
    let mut s = [3u8; 32];
    s[..8].copy_from_slice(&seed.to_le_bytes());
    s[9] = fat as u8;
    let mut runner = TestRunner::new_with_rng(Config::default(), TestRng::from_seed(RngAlgorithm::ChaCha, &s));
    let mut cfg = chain_cfg(Tier::Quick);
    cfg.nblocks = Just(nblocks).boxed();
    if fat {
        // > 4 MB of hex per csvdump file needs > 2 MB of script bytes
        cfg.ntx = Just(2usize).boxed();
        cfg.tx.max_common = 2;
        cfg.tx.scriptsig_len = Just(36_000usize).boxed();
        cfg.tx.script = Just(36_000usize).prop_flat_map(gen::bytes).boxed();
        cfg.tx.allow_segwit = false;
    }
    gen::chain(&cfg).new_tree(&mut runner).unwrap().current()
}

fn chain_cfg(tier: Tier) -> gen::ChainCfg {
    let mut cfg = gen::ChainCfg::new(tier, gen::c16_script(tier));
    cfg.coin = gen::any_coin();
    cfg.nblocks = (3usize..=8).boxed();
    cfg.ntx = (1usize..4).boxed();
    cfg.tx.max_common = 3;
    cfg.time = gen::monotonic_time();
    cfg.tx.max_value = 2_100_000_000_000_000 / 64;
    cfg
}

fn enumerated(seed: u64, tier: Tier) -> Vec<Case> {
    let chain = fixed_chain(seed, 6, false);
    let nb = 6u32;
    let mut v = Vec::new();
    let hsel = |i: u32| (((i as u64) * 65536 + nb as u64 - 1) / nb as u64) as u16;
    for cb in FILE_CALLBACKS {
        let mk = |fault: Fault| Case { chain: chain.clone(), nfiles: 3, cb, start: None, end: None, fault, stale_tmp: false };
        v.push(mk(Fault::None));
        v.push(Case { stale_tmp: true, ..mk(Fault::None) });
        v.push(Case { stale_tmp: true, ..mk(Fault::Kill { syscall: "rename".into(), k: 1 }) });
        for kind in 0..=5u8 {
            v.push(mk(Fault::Startup { kind }));
        }
        v.push(Case { stale_tmp: true, ..mk(Fault::Startup { kind: 2 }) });
        for beyond in [0u8, 1, 200] {
            v.push(mk(Fault::EmptyRange { beyond }));
        }
        v.push(Case { stale_tmp: true, ..mk(Fault::EmptyRange { beyond: 0 }) });
        for i in 0..nb {
            v.push(mk(Fault::FileRemoved { h: hsel(i) }));
            v.push(mk(Fault::FileEmptied { h: hsel(i) }));
            for alias in 0..4u8 {
                v.push(mk(Fault::OffsetPastEof { h: hsel(i), alias }));
            }
            for at in [0u32, 0x0400_0000, 0x1000_0000, 0x8000_0000, 0x9000_0000, 0xa000_0000, 0xb000_0000, 0xc000_0000, 0xd000_0000, 0xe000_0000, 0xe800_0000, 0xf000_0000, 0xf400_0000, 0xf800_0000, 0xfc00_0000, 0xfe00_0000, 0xff00_0000, 0xffff_0000, 0xffff_ffff] {
                v.push(mk(Fault::Truncated { h: hsel(i), at }));
            }
        }
        for num in 0..=8u32 {
            for delta in [-1i32, 0, 1] {
                v.push(mk(Fault::Fsize { num, den: 8, delta }));
            }
        }
        for k in 1..=8 {
            v.push(mk(Fault::Enospc { k, file: None, errno: (k % 6) as u8 }));
        }
        for f in 0..cb.stems().len() as u8 {
            for k in 1..=2 {
                v.push(mk(Fault::Enospc { k, file: Some(f), errno: ((k + f as u32) % 6) as u8 }));
            }
        }
        for k in 1..=cb.stems().len() as u32 {
            v.push(mk(Fault::RenameFail { k }));
        }
        for sc in ["openat", "write", "rename", "close"] {
            for k in 1..=6 {
                v.push(mk(Fault::Kill { syscall: sc.into(), k }));
            }
        }
    }
    {
        // every byte of the last block (incl. its 8-byte prefix) as truncation point - the file then ends exactly there,
        // e.g. right behind the header where the transaction count would start - for csvdump
        let built = chain.build();
        let total = built.blocks[5].1.ser().len() as u64 + 8;
        if total <= 600 || tier == Tier::Thorough {
            for k in 0..total {
                let at = (((k << 32) + total - 1) / total).min(u32::MAX as u64) as u32;
                v.push(Case { chain: chain.clone(), nfiles: 3, cb: Callback::CsvDump, start: None, end: None, fault: Fault::Truncated { h: hsel(5), at }, stale_tmp: false });
            }
        } else {
            // a large last block: the structural cut points (inside and right behind the prefix, the header, the counts)
            for k in (0..100u64).chain([total - 1, total - 2]) {
                let at = (((k << 32) + total - 1) / total).min(u32::MAX as u64) as u32;
                v.push(Case { chain: chain.clone(), nfiles: 3, cb: Callback::CsvDump, start: None, end: None, fault: Fault::Truncated { h: hsel(5), at }, stale_tmp: false });
            }
        }
    }
    {
        // a block that ENDS in a BIP144 (segwit) transaction, cut at every byte of its last 300 bytes: the marker / flag,
        // the inputs, the outputs, the witness stacks and the lock time of the final transaction
        let scripts: Vec<Vec<u8>> = (0..4usize).map(|i| { let mut s = vec![0x00, 0x14]; s.extend([0x50 + i as u8; 20]); s }).collect();
        let mut sw = vpmodel::spec::chain_from_scripts(vpmodel::chain::Coin::Bitcoin, &scripts, &[900, 4000], 1, 2, 0, 1_500_000_000);
        for b in sw.blocks.iter_mut() {
            if let Some(t) = b.txs.last_mut() {
                t.segwit = true;
                t.inputs[0].witness = vec![vec![0x30; 71], vec![0x02; 33]];
            }
        }
        let built = sw.build();
        let nb = built.blocks.len() as u64;
        let total = built.blocks[nb as usize - 1].1.ser().len() as u64 + 8;
        let hsel_last = (((nb - 1) * 65536 + nb - 1) / nb) as u16;
        for k in total.saturating_sub(300)..total {
            let at = (((k << 32) + total - 1) / total).min(u32::MAX as u64) as u32;
            v.push(Case { chain: sw.clone(), nfiles: 1, cb: Callback::CsvDump, start: None, end: None, fault: Fault::Truncated { h: hsel_last, at }, stale_tmp: false });
        }
    }
    if tier == Tier::Thorough {
        // every byte of one block (incl. its 8-byte prefix) as truncation point, csvdump
        let built = chain.build();
        let total = built.blocks[2].1.ser().len() as u64 + 8;
        for k in 0..total {
            let at = (((k << 32) + total - 1) / total).min(u32::MAX as u64) as u32;
            v.push(Case { chain: chain.clone(), nfiles: 3, cb: Callback::CsvDump, start: None, end: None, fault: Fault::Truncated { h: hsel(2), at }, stale_tmp: false });
        }
    }
    // one chain whose outputs exceed the 4 MB buffers: writes fail mid-run, before the final flush
    let nfat = if tier == Tier::Quick { 32 } else { 70 };
    let fat = fixed_chain(seed, nfat, true);
    for cb in [Callback::CsvDump] {
        let mk = |fault: Fault| Case { chain: fat.clone(), nfiles: 2, cb, start: None, end: None, fault, stale_tmp: false };
        for (num, delta) in [(1u32, 0i32), (4, 0), (7, 0), (8, -1), (8, 0)] {
            v.push(mk(Fault::Fsize { num, den: 8, delta }));
        }
        for k in 1..=3 {
            v.push(mk(Fault::Enospc { k, file: None, errno: (k % 6) as u8 }));
            v.push(mk(Fault::Enospc { k, file: Some(k as u8), errno: 0 }));
            v.push(mk(Fault::Kill { syscall: "write".into(), k }));
        }
    }
    // a single row longer than the 4 MB buffer (an output script of 2.2 MB is a 4.4 MB line of tx_out.csv - the LAST line, so that no later write can report what this one lost): such a write
    // bypasses the buffer, so its failure or shortness must be noticed at once
    {
        let mut scripts: Vec<Vec<u8>> = (0..4usize).map(|i| vec![0x51 + i as u8]).collect();
        scripts[3] = { let mut sc = vec![0x6a]; sc.extend((0..2_200_000u32).map(|k| (k % 233) as u8)); sc };
        let wide = vpmodel::spec::chain_from_scripts(vpmodel::chain::Coin::Bitcoin, &scripts, &[700, 9], 1, 2, 0, 1_400_000_000);
        let mk = |fault: Fault| Case { chain: wide.clone(), nfiles: 1, cb: Callback::CsvDump, start: None, end: None, fault, stale_tmp: false };
        for (num, delta) in [(1u32, 0i32), (4, 0), (7, 0), (8, -1)] {
            v.push(mk(Fault::Fsize { num, den: 8, delta }));
        }
        for k in 1..=3 {
            v.push(mk(Fault::Enospc { k, file: Some(3), errno: (k % 6) as u8 }));
        }
        v.push(mk(Fault::None));
    }
    // the same for the two table-producing callbacks: 125 000 funded addresses make the balances table (5 MB) and
    // the unspent table (15 MB) larger than the 4 MB buffer, so the table is written in several large writes
    let scripts: Vec<Vec<u8>> = (0..125_000usize).map(|i| { let mut s = vec![0x76, 0xa9, 0x14]; s.extend([(i & 0xff) as u8, (i >> 8) as u8, (i >> 16) as u8, 0x5a].iter().cycle().take(20)); s.extend([0x88, 0xac]); s }).collect();
    let tables = vpmodel::spec::chain_from_scripts(vpmodel::chain::Coin::Bitcoin, &scripts, &[1000, 2500, 7, 123_456_789], 2500, 10, 0, 1_400_000_000);
    for cb in [Callback::Balances, Callback::UnspentCsvDump] {
        let mk = |fault: Fault| Case { chain: tables.clone(), nfiles: 2, cb, start: None, end: None, fault, stale_tmp: false };
        for (num, delta) in [(1u32, 0i32), (5, 0), (8, -1)] {
            v.push(mk(Fault::Fsize { num, den: 8, delta }));
        }
        for k in 1..=2 {
            v.push(mk(Fault::Enospc { k, file: None, errno: (k % 6) as u8 }));
            v.push(mk(Fault::Kill { syscall: "write".into(), k }));
        }
    }
    v
}

fn random_strategy(tier: Tier) -> BS<Case> {
    let fault = prop_oneof![
        1 => Just(Fault::None),
        2 => any::<u16>().prop_map(|h| Fault::FileRemoved { h }),
        2 => any::<u16>().prop_map(|h| Fault::FileEmptied { h }),
        4 => (any::<u16>(), any::<u32>()).prop_map(|(h, at)| Fault::Truncated { h, at }),
        2 => (any::<u16>(), 0u8..4).prop_map(|(h, alias)| Fault::OffsetPastEof { h, alias }),
        4 => (0u32..=1000, -2i32..=2).prop_map(|(num, delta)| Fault::Fsize { num, den: 1000, delta }),
        2 => (1u32..10, proptest::option::weighted(0.5, 0u8..4), 0u8..6).prop_map(|(k, file, errno)| Fault::Enospc { k, file, errno }),
        4 => (proptest::sample::select(vec!["openat", "write", "rename", "close"]), 1u32..8).prop_map(|(s, k)| Fault::Kill { syscall: s.to_string(), k }),
        1 => (0u8..=5).prop_map(|kind| Fault::Startup { kind }),
        1 => (0u8..=3).prop_map(|beyond| Fault::EmptyRange { beyond }),
    ];
    (gen::chain(&chain_cfg(tier)), 2u8..=4, proptest::sample::select(FILE_CALLBACKS.to_vec()), proptest::option::weighted(0.3, any::<u16>()), proptest::option::weighted(0.3, any::<u16>()), fault, proptest::bool::weighted(0.25)).prop_map(|(chain, nfiles, cb, start, end, fault, stale_tmp)| Case { chain, nfiles, cb, start, end, fault, stale_tmp }).boxed()
}

fn run(eng: &Engine, a: &Args) {
    eng.enumerate("enumerated-fault-plans", enumerated(a.seed, a.tier), check);
    let n = if a.tier == Tier::Quick { 120 } else { 2000 };
    let tier = a.tier;
    eng.explore("random-fault-plans", scaled(n, a), move || random_strategy(tier), check);
}

fn replay(part: &str, case: serde_json::Value) -> Option<Verdict> {
    match part {
        "enumerated-fault-plans" | "random-fault-plans" => Some(check(&serde_json::from_value(case).ok()?)),
        _ => None,
    }
}
