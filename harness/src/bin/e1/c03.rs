//! C03 - a block is read from the file and offset its index record names, wherever it is.
use crate::common::*;
use crate::{holds, infra, scaled, Args, PropDef};
use proptest::prelude::*;
use serde::{Deserialize, Serialize};
use vpmodel::engine::{Engine, Pass, Verdict};
use vpmodel::gen::{self, Tier, BS};
use vpmodel::layout::{self, Gap, LayoutSpec};
use vpmodel::oracle::check_csvdump;
use vpmodel::run::{Callback, RunOpts};
use vpmodel::spec::ChainSpec;

pub const DEF: PropDef = PropDef {
    id: "C03",
    level: "exploration",
    rule: "one generated logical chain (base heights with 1..4-byte VarInts) written in the canonical single-file layout and in 1..2 generated layouts (1..60 files, file numbers up to 2^64-1, name padding 0..13 digits, any physical order, zero/garbage/magic-lookalike gaps, unindexed decoy blocks, holes beyond the 32 KiB buffer and beyond 4 GiB, foreign index keys, extra directory entries, multi-table LevelDB); csvdump of every layout must be byte-identical to the canonical layout's and to the reference model. Non-trivial = (>=2 files or a non-identity physical order) and >=1 backward seek induced by the height order; distinct by layout hash. Foreign index keys are a generated subset of twelve keys (file info, last file, flags, reindex marker, obfuscation key, tx index entries, keys sorting right before and after 'b'). Bounded-exhaustive part 'varint-width-boundaries': one small chain for the largest k-byte and the smallest (k+1)-byte Bitcoin Core VarInt value of each locator field - height (to 2^31), file number (to 2^64-1, ten bytes) and data offset (sparse files, to 4.4 TB).",
    assumptions: &["rusty-leveldb writes an index the tool (same crate, as reader) can open", "blk files behind RELATIVE symlinks are not generated (absolute links, dangling, looping and directory links are)"],
    run,
    replay,
};

#[derive(Clone, Debug, Serialize, Deserialize)]
pub struct Case {
    pub chain: ChainSpec,
    pub layouts: Vec<LayoutSpec>,
    /// the first block of every blk file is stored without the magic bytes in front of its length prefix (data offset
    /// 4, or lead + 4): the record's offset and the four bytes before it are all that locates a block
    #[serde(default)]
    pub bare_first: bool,
    /// RLIMIT_NOFILE of every run of the case (files that no record names must not cost descriptors)
    #[serde(default)]
    pub nofile: Option<u64>,
}

pub fn chain_cfg(tier: Tier) -> gen::ChainCfg {
    let fat = prop_oneof![Just(20_000usize), Just(33_000usize), 34_000usize..70_000].prop_flat_map(gen::bytes);
    let script = prop_oneof![12 => gen::ordinary_script(tier), 1 => fat].boxed();
    let mut cfg = gen::ChainCfg::new(tier, script);
    cfg.nblocks = prop_oneof![2 => 1usize..4, 6 => 4usize..14, 2 => 14usize..40].boxed();
    cfg.ntx = prop_oneof![4 => Just(0usize), 4 => 1usize..3].boxed();
    cfg.tx.max_common = 3;
    cfg.base = gen::wide_base();
    cfg
}

pub fn strategy(tier: Tier, big_holes: bool) -> BS<Case> {
    (gen::chain(&chain_cfg(tier)), proptest::collection::vec(layout::layout(tier, false, big_holes), 1..=2)).prop_map(|(chain, layouts)| { let bare_first = chain.blocks.len() % 10 == 3; Case { chain, layouts, nofile: None, bare_first } }).boxed()
}

pub fn check(c: &Case) -> Verdict {
    let built = c.chain.build();
    let base = built.base();
    let all = built.all();
    let mut o = RunOpts::new(built.coin, Callback::CsvDump);
    if base > 0 {
        o.start = Some(base);
    }
    o.nofile = c.nofile;
    // canonical layout
    let mut plan = LayoutSpec::canonical().to_plan(&built);
    let w = infra!(World::create("c03", &mut plan));
    let canon = infra!(w.run(&o));
    if let Some(v) = timed_out_is_infra(&canon) {
        return v;
    }
    holds!(check_csvdump(built.coin, &all, &canon, base).map_err(|m| format!("canonical layout: {}", m)));
    drop(w);
    let n = built.blocks.len();
    let mut nontrivial = false;
    let mut classes = vec![];
    for (k, l) in c.layouts.iter().enumerate() {
        let mut plan = l.to_plan(&built);
        if c.bare_first {
            for f in plan.files.iter_mut() {
                if let Some(pos) = f.segs.iter().position(|sg| matches!(sg, vpmodel::datadir::Seg::Blk { .. })) {
                    if let vpmodel::datadir::Seg::Blk { bytes, rec, .. } = f.segs[pos].clone() {
                        f.segs[pos] = vpmodel::datadir::Seg::BlkBare { bytes, rec };
                    }
                }
            }
        }
        let w = infra!(World::create("c03", &mut plan));
        let out = infra!(w.run(&o));
        if let Some(v) = timed_out_is_infra(&out) {
            return v;
        }
        if !out.ok() {
            return Verdict::Fail(format!("layout #{}: tool failed on a well-formed data directory: {}", k, out.describe()));
        }
        if out.files != canon.files {
            let m = check_csvdump(built.coin, &all, &out, base).err().unwrap_or_else(|| "files differ from the canonical layout's".into());
            return Verdict::Fail(format!("layout #{} ({} files) gives different csvdump output than the canonical layout of the same chain: {}", k, l.files_used(n), m));
        }
        let back = l.backward_seeks(n);
        let files = l.files_used(n);
        if (files >= 2 || !l.is_identity_order(n)) && back >= 1 {
            nontrivial = true;
        }
        classes.push(format!("files={}", match files { 1 => "1", 2..=4 => "2-4", 5..=19 => "5-19", _ => "20+" }));
        classes.push(format!("backward-seeks={}", if back == 0 { "0" } else { ">=1" }));
        if plan.files.iter().any(|f| f.number > 0xffff_ffff) {
            classes.push("file-number>2^32".into());
        }
        if plan.recs.iter().any(|r| r.data_pos > 0xffff_ffff) {
            classes.push("offset>4GiB".into());
        }
        if plan.recs.iter().any(|r| r.data_pos > 32 * 1024) {
            classes.push("offset>32KiB".into());
        }
        if l.extras.foreign_keys {
            classes.push("foreign-keys".into());
        }
        if l.ldb_small || l.ldb_reopens > 0 {
            classes.push("multi-table-index".into());
        }
    }
    classes.push(format!("base={}", if base == 0 { "0" } else if base < 128 { "1-byte" } else if base < 16512 { "2-byte" } else if base < 2_113_664 { "3-byte" } else { "4-byte" }));
    let sample = serde_json::json!({"coin": built.coin.cli(), "base": base, "blocks": n, "layouts": c.layouts.iter().map(|l| serde_json::json!({"files": l.numbers(), "placement": l.placement(n), "gaps": format!("{:?}", l.gaps), "backward_seeks": l.backward_seeks(n)})).collect::<Vec<_>>()});
    Verdict::Pass(Pass { nontrivial, key: key_of(&c.layouts), classes, known: vec![], sub_evals: 1 + c.layouts.len() as u64, sample: Some(sample), extra_keys: vec![] })
}

/// An index with a hole: height `gap` of the chain has no data-bearing record (a node in initial block download stores
/// blocks out of order; the record of a block it has not received yet is header-only) while higher heights have data.
/// The statement does not say how far such a run gets, but whatever is delivered for a height must be the block
/// recorded for THAT height: exit status 0 is accepted with the output of a prefix of the chain that ends before the
/// hole, a failure is accepted when it leaves no final-named file.
#[derive(Clone, Debug, Serialize, Deserialize)]
pub struct GapCase {
    pub chain: ChainSpec,
    pub gap: u16,
    pub layout: LayoutSpec,
}

pub fn check_gap(c: &GapCase) -> Verdict {
    let built = c.chain.build();
    let n = built.blocks.len();
    if n < 3 {
        return Verdict::Pass(Pass::default());
    }
    let base = built.base();
    let g = 1 + vpmodel::spec::mono(c.gap, n - 2); // 1..=n-2: there are data-bearing records above the hole
    let mut plan = c.layout.to_plan(&built);
    plan.recs[g].status = vpmodel::datadir::VALID_TREE;
    plan.recs[g].ntx = 0;
    let w = infra!(World::create("c03g", &mut plan));
    let mut o = RunOpts::new(built.coin, Callback::CsvDump);
    if base > 0 {
        o.start = Some(base);
    }
    let out = infra!(w.run(&o));
    if let Some(v) = timed_out_is_infra(&out) {
        return v;
    }
    let outcome;
    if out.ok() {
        let rows = out.files.iter().find(|(k, _)| k.starts_with("blocks-")).map(|(_, v)| String::from_utf8_lossy(v).lines().count()).unwrap_or(0);
        if rows == 0 || rows > g {
            return Verdict::Fail(format!("index without a data-bearing record at height {} (chain {}..={}): {} block rows were written - a block was delivered for a height whose record names no block", base + g as u64, base, built.tip(), rows));
        }
        let all = built.all();
        holds!(check_csvdump(built.coin, &all[..rows], &out, base).map_err(|m| format!("index with a hole at height {}: the {} delivered blocks are not the ones recorded for heights {}..: {}", base + g as u64, rows, base, m)));
        outcome = if rows == g { "stops-before-hole" } else { "stops-earlier" };
    } else {
        if !out.final_files().is_empty() {
            return Verdict::Fail(format!("index with a hole at height {}: failed run left final-named files {:?}", base + g as u64, out.final_files()));
        }
        outcome = "fails";
    }
    let classes = vec![format!("outcome={}", outcome), format!("files={}", c.layout.files_used(n).min(5))];
    Verdict::Pass(Pass { nontrivial: true, key: key_of(c), classes, known: vec![], sub_evals: 1, sample: Some(serde_json::json!({"coin": built.coin.cli(), "heights": format!("{}..={}", base, built.tip()), "hole_at": base + g as u64, "outcome": outcome})), extra_keys: vec![] })
}

/// Bitcoin Core VarInt width boundaries: the largest value of k bytes and the smallest of k+1 bytes
fn varint_boundaries() -> Vec<u64> {
    let mut v = Vec::new();
    let mut first_of_next: u64 = 0x80; // smallest 2-byte value
    loop {
        v.push(first_of_next - 1);
        v.push(first_of_next);
        match first_of_next.checked_mul(128).and_then(|x| x.checked_add(0x80)) {
            Some(n) => first_of_next = n,
            None => break,
        }
    }
    v.push(u64::MAX);
    v
}

/// One small chain per boundary value of each of the three VarInt-encoded locator fields of an index record
/// (height, file number, data offset): the block must be found wherever the boundary puts it.
fn boundary_cases() -> Vec<Case> {
    let scripts: Vec<Vec<u8>> = (0..3usize).map(|i| vec![0x51 + i as u8, 0x51 + i as u8, 0x87]).collect();
    let mk = |base: u64, number: u64, lead: Gap| Case {
        chain: vpmodel::spec::chain_from_scripts(vpmodel::chain::Coin::Bitcoin, &scripts, &[5_000], 1, 1, base, 1_500_000_000),
        layouts: vec![LayoutSpec { files: vec![layout::FileSlot { number, pad: 5 }], lead: vec![lead], ..LayoutSpec::canonical() }],
        nofile: None,
        bare_first: false,
    };
    let mut v = Vec::new();
    for b in varint_boundaries() {
        // heights are an `int` in Bitcoin Core; the three blocks straddle the boundary
        if b >= 2 && b < (1u64 << 31) - 2 {
            v.push(mk(b - 1, 0, Gap::None));
        }
        v.push(mk(0, b, Gap::None));
        // data offset of the first block == b (8 bytes of magic and size precede it); sparse files up to 8 TiB
        if b >= 8 && b <= (1u64 << 43) {
            v.push(mk(0, 3, Gap::Hole(b - 8)));
        }
    }
    v
}

fn run(eng: &Engine, a: &Args) {
    let mut bare = boundary_cases();
    bare.truncate(6);
    for c in bare.iter_mut() {
        c.bare_first = true;
    }
    eng.enumerate("first-block-without-magic", bare, check);
    eng.enumerate("varint-width-boundaries", boundary_cases(), check);
    let tier0 = a.tier;
    eng.explore("index-with-a-hole", scaled(if a.tier == Tier::Quick { 60 } else { 800 }, a), move || (gen::chain(&chain_cfg(tier0)), any::<u16>(), layout::layout(tier0, false, false)).prop_map(|(chain, gap, layout)| GapCase { chain, gap, layout }).boxed(), check_gap);
    // 700 blk files that no record names, next to a chain in two indexed files, under a limit of 64 descriptors: the
    // result must be that of the plain directory under the same limit
    let scripts: Vec<Vec<u8>> = (0..6usize).map(|i| vec![0x51 + i as u8, 0x87]).collect();
    let chain = vpmodel::spec::chain_from_scripts(vpmodel::chain::Coin::Litecoin, &scripts, &[700], 1, 1, 0, 1_500_000_000);
    let mut crowded = LayoutSpec { files: vec![layout::FileSlot { number: 0, pad: 5 }, layout::FileSlot { number: 1, pad: 5 }], assign: vec![0, 40_000], ..LayoutSpec::canonical() };
    crowded.extras.unreferenced_many = 700;
    crowded.extras.rev_files = true;
    eng.enumerate("many-unreferenced-blk-files", vec![Case { chain, layouts: vec![crowded], nofile: Some(64), bare_first: false }], check);
    // layouts without multi-GiB holes first: a wrong seek then fails fast instead of reading a hole
    let (n1, n2) = if a.tier == Tier::Quick { (200, 100) } else { (2700, 1300) };
    let tier = a.tier;
    eng.explore("layout-vs-canonical", scaled(n1, a), move || strategy(tier, false), check);
    eng.explore("layout-vs-canonical-4GiB", scaled(n2, a), move || strategy(tier, true), check);
}

fn replay(part: &str, case: serde_json::Value) -> Option<Verdict> {
    match part {
        "layout-vs-canonical" | "layout-vs-canonical-4GiB" | "varint-width-boundaries" | "many-unreferenced-blk-files" | "first-block-without-magic" => Some(check(&serde_json::from_value(case).ok()?)),
        "index-with-a-hole" => Some(check_gap(&serde_json::from_value(case).ok()?)),
        _ => None,
    }
}
