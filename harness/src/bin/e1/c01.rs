//! C01 - csvdump reproduces every on-disk block, tx, input and output field exactly.
use crate::common::*;
use crate::{holds, infra, scaled, Args, PropDef};
use proptest::prelude::*;
use serde::{Deserialize, Serialize};
use vpmodel::chain::genesis_block;
use vpmodel::datadir::canonical_plan;
use vpmodel::engine::{Engine, Pass, Verdict};
use vpmodel::gen::{self, Tier, BS};
use vpmodel::oracle::check_csvdump;
use vpmodel::run::{Callback, RunOpts};
use vpmodel::spec::ChainSpec;

pub const DEF: PropDef = PropDef {
    id: "C01",
    level: "exploration",
    rule: "generated chains (8 coins, 1..6 blocks, tx/input/output counts and script/witness lengths drawn from CompactSize boundary classes, legacy and BIP144 txs, arbitrary u32/u64 fields, --verify on/off, 15% into a dump folder that still holds longer stale *.csv.tmp files) written as a data directory, plus one fixed chain with a transaction of 0x10001 inputs and 66 000 outputs; csvdump output compared byte-for-byte with the reference rendering. Non-trivial = >=2 blocks and (a count or length equal to 0xfc/0xfd/0xffff/0x10000, or a segwit tx, or a tx with >=2 inputs and >=2 outputs); distinct by hash of the case. Chains may repeat an earlier coinbase or transaction verbatim (same txid twice).",
    assumptions: &["canonical CompactSize encodings only (non-canonical ones cannot occur in accepted blocks)", "SHA-256 compression function of bitcoin_hashes is shared with the tool (cross-checked against fixed vectors at start-up)", "single-file layout (layouts are C03's subject)"],
    run,
    replay,
};

#[derive(Clone, Debug, Serialize, Deserialize)]
pub struct Case {
    pub chain: ChainSpec,
    pub verify: bool,
    /// the dump folder still holds (longer) *.csv.tmp files of an interrupted earlier run
    #[serde(default)]
    pub stale_tmp: bool,
}

pub fn strategy(tier: Tier) -> BS<Case> {
    let mut cfg = gen::ChainCfg::new(tier, gen::ordinary_script(tier));
    cfg.tx.big_counts = true;
    cfg.tx.max_value = u64::MAX;
    // null outpoints (coinbase-shaped inputs) in any position of multi-input transactions
    cfg.tx.src = prop_oneof![8 => gen::default_src(), 1 => Just(vpmodel::spec::Src::Null)].boxed();
    cfg.nblocks = (1usize..=6).boxed();
    // byte-identical coinbases / transactions in different blocks (same txid twice: BIP30 history) still are one row each
    cfg.dup_coinbase = true;
    cfg.ntx = prop_oneof![6 => 0usize..4, 2 => 4usize..12, 1 => Just(0xfbusize), 1 => Just(0xfcusize), 1 => Just(0xfdusize)].boxed();
    // a script's length class is drawn per output: add the raw length classes explicitly
    cfg.tx.script = prop_oneof![6 => gen::ordinary_script(tier), 2 => gen::raw_script(tier)].boxed();
    (gen::chain(&cfg), any::<bool>(), proptest::bool::weighted(0.15))
        .prop_map(|(mut chain, verify, stale_tmp)| {
            let verify = verify && genesis_block(chain.coin).is_some();
            chain.real_genesis = verify;
            Case { chain, verify, stale_tmp }
        })
        .boxed()
}

fn is_boundary(n: usize) -> bool {
    matches!(n, 0xfc | 0xfd | 0xffff | 0x10000)
}

pub fn check(c: &Case) -> Verdict {
    let built = c.chain.build();
    let mut plan = canonical_plan(built.coin, &built.blocks);
    let w = infra!(World::create("c01", &mut plan));
    let mut o = RunOpts::new(built.coin, Callback::CsvDump);
    o.verify = c.verify;
    let out = if c.stale_tmp {
        let d = w.new_dump();
        let total: usize = built.blocks.iter().map(|(_, b)| b.ser().len()).sum();
        let junk = vec![b'0'; total * 3 + 4096];
        for stem in Callback::CsvDump.stems() {
            infra!(std::fs::write(d.join(format!("{}.csv.tmp", stem)), &junk).map_err(|e| e.to_string()));
        }
        infra!(w.run_in(&d, &o))
    } else {
        infra!(w.run(&o))
    };
    if let Some(v) = timed_out_is_infra(&out) {
        return v;
    }
    let all = built.all();
    holds!(check_csvdump(built.coin, &all, &out, 0));
    // classification
    let mut boundary = false;
    let mut segwit = false;
    let mut multi = false;
    for (_, b) in &built.blocks {
        boundary |= is_boundary(b.txs.len());
        for t in &b.txs {
            segwit |= t.segwit;
            multi |= t.inputs.len() >= 2 && t.outputs.len() >= 2;
            boundary |= is_boundary(t.inputs.len()) || is_boundary(t.outputs.len());
            for i in &t.inputs {
                boundary |= is_boundary(i.script_sig.len()) || (t.segwit && (is_boundary(i.witness.len()) || i.witness.iter().any(|x| is_boundary(x.len()))));
            }
            for o in &t.outputs {
                boundary |= is_boundary(o.script.len());
            }
        }
    }
    let mut classes = vec![format!("coin={}", built.coin.cli()), format!("verify={}", c.verify), format!("blocks={}", built.blocks.len().min(7))];
    if boundary {
        classes.push("compactsize-boundary".into());
    }
    if segwit {
        classes.push("segwit-tx".into());
    }
    if multi {
        classes.push("tx>=2in>=2out".into());
    }
    let nontrivial = built.blocks.len() >= 2 && (boundary || segwit || multi);
    let sample = serde_json::json!({"coin": built.coin.cli(), "verify": c.verify, "blocks": built.blocks.iter().map(|(h, b)| serde_json::json!({"height": h, "txs": b.txs.len(), "bytes": b.ser().len(), "tx_shapes": b.txs.iter().take(4).map(|t| format!("{}in/{}out{}", t.inputs.len(), t.outputs.len(), if t.segwit {"/segwit"} else {""})).collect::<Vec<_>>()})).collect::<Vec<_>>()});
    Verdict::Pass(Pass { nontrivial, key: key_of(c), classes, known: vec![], sub_evals: 1, sample: Some(sample), extra_keys: vec![] })
}

fn run(eng: &Engine, a: &Args) {
    let n = if a.tier == Tier::Quick { 400 } else { 3000 };
    let tier = a.tier;
    eng.explore("csvdump-vs-model", scaled(n, a), move || strategy(tier), check);
    // fixed wide cases: one transaction with 66 000 outputs / 0x10001 inputs (indices and counts beyond 16 bits)
    let scripts: Vec<Vec<u8>> = (0..66_100usize).map(|i| vec![0x51 + (i % 16) as u8, (i & 0xff) as u8, (i >> 8) as u8]).collect();
    let mut wide = vpmodel::spec::chain_from_scripts(vpmodel::chain::Coin::Litecoin, &scripts, &[1, 2, 3], 66_000, 2, 0, 1_400_000_000);
    if let Some(t) = wide.blocks[0].txs.first_mut() {
        let proto = t.inputs[0].clone();
        t.inputs = (0..0x10001u32).map(|k| { let mut i = proto.clone(); i.src = vpmodel::spec::Src::Unknown((k & 0xff) as u8, k); i.sequence = k; i }).collect();
    }
    // single fields of more than a million bytes (no field of a stored block is limited below the block size):
    // a 1 000 001-byte scriptSig, a 1.5 MB output script and a 2 MB witness item in three consecutive blocks
    let mut scripts: Vec<Vec<u8>> = (0..6usize).map(|i| vec![0x51 + i as u8]).collect();
    scripts[3] = { let mut s = vec![0x6au8]; s.extend((0..1_500_000u32).map(|k| (k % 251) as u8)); s };
    let mut mega = vpmodel::spec::chain_from_scripts(vpmodel::chain::Coin::Bitcoin, &scripts, &[5_000, 7_000], 1, 2, 0, 1_400_000_000);
    if let Some(t) = mega.blocks[0].txs.first_mut() {
        t.inputs[0].script_sig = (0..1_000_001u32).map(|k| (k % 253) as u8).collect();
    }
    if let Some(t) = mega.blocks.last_mut().and_then(|b| b.txs.first_mut()) {
        t.segwit = true;
        t.inputs[0].witness = vec![vec![0x30; 71], (0..2_000_000u32).map(|k| (k % 241) as u8).collect()];
    }
    eng.enumerate("wide-transaction", vec![Case { chain: wide, verify: false, stale_tmp: false }, Case { chain: mega, verify: false, stale_tmp: false }], check);
}

fn replay(part: &str, case: serde_json::Value) -> Option<Verdict> {
    match part {
        "csvdump-vs-model" | "wide-transaction" => Some(check(&serde_json::from_value(case).ok()?)),
        _ => None,
    }
}
