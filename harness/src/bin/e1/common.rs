//! Helpers shared by the E1 property modules.
use vpmodel::chain::Block;
use vpmodel::datadir::Plan;
use vpmodel::engine::Verdict;
use vpmodel::run::{run_tool, RunOpts, RunOut, Scratch};

pub struct World {
    pub scratch: Scratch,
    pub n: std::cell::Cell<u32>,
    /// hash of the indexed block hashes (not of the layout): selects the verbosity of runs whose case
    /// does not set one, so that every check also sees -v / -vv / -vvv runs (a pure function of the case)
    pub vsel: u64,
}

pub const AUTO_VERBOSITY_NOTE: &str = "runs whose case does not fix a verbosity use 0 / -v / -vv / -vvv for 70 / 10 / 10 / 10 % of the chains (chosen by a hash of the indexed block hashes, so that partner runs of one case share it); a fifth of the chains write into a dump folder that already holds longer stale temporary files of the same callback; the worker pool has 1..33 threads (per chain); a sixth of the chains have their TMPDIR on another file system than the dump folder; a third of the chains run with the release build of the tool; an eighth of the chains run with stdout on a pseudo terminal and an eighth with a shifted wall clock; likewise 40 % of the chains are run with the blockchain directory and the dump folder spelled differently on the command line (relative to the working directory, with trailing slashes, with ./ and /../ detours) and TZ set to a far-off zone";

impl World {
    /// writes the plan into <scratch>/data
    pub fn create(tag: &str, plan: &mut Plan) -> Result<World, String> {
        let scratch = Scratch::new(tag);
        plan.write(&scratch.path.join("data"))?;
        let mut hs: Vec<&[u8]> = plan.recs.iter().map(|r| &r.hash[..]).collect();
        hs.sort();
        let vsel = vpmodel::hashes::fnv64(&hs.concat());
        Ok(World { scratch, n: std::cell::Cell::new(0), vsel })
    }
    pub fn data(&self) -> std::path::PathBuf {
        self.scratch.path.join("data")
    }
    /// fresh dump folder
    pub fn new_dump(&self) -> std::path::PathBuf {
        let k = self.n.get();
        self.n.set(k + 1);
        self.scratch.sub(&format!("dump{}", k))
    }
    /// run with a fresh dump folder
    fn with_verbosity(&self, o: &RunOpts) -> RunOpts {
        let mut o = o.clone();
        if o.verbose == 0 && o.pause_on.is_none() {
            o.verbose = match (self.vsel >> 7) % 10 {
                0 => 1,
                1 => 2,
                2 => 3,
                _ => 0,
            };
            // trace output of the debug build costs about a minute per 10 MB of block data on a busy machine: large
            // data directories (tens of thousands of blocks, megabyte scripts) are run at -v at most
            if o.verbose >= 2 && self.stale_len() > (24 << 20) {
                o.verbose = 1;
            }
        }
        // an eighth of the chains run with the tool's stdout on a pseudo terminal, another eighth with the wall clock
        // shifted by years or set close to the chain's own header times (neither may change any result)
        if !o.tty && o.pause_on.is_none() && o.inject.is_none() && o.trace.is_none() && (self.vsel >> 33) % 8 == 0 {
            o.tty = true;
        }
        if o.clock_offset.is_none() && (self.vsel >> 41) % 8 == 0 {
            let now = vpmodel::gen::now_epoch() as i64;
            let k = (self.vsel >> 44) % 6;
            o.clock_offset = Some(match k {
                0 => 86_400 * 365 * 12,
                1 => -86_400 * 365 * 25,
                2 => 1_300_000_000 - now + 7200,
                3 => 1_400_000_000 - now - 7200,
                4 => 4_000_000_000 - now,
                _ => 1 - now,
            });
        }
        // a third of the chains run with the release build of the tool (no debug assertions, wrapping arithmetic)
        if o.bin.is_none() && (self.vsel >> 51) % 3 == 0 {
            if let Ok(r) = std::env::var("VP_TOOL_BIN_REL_AUTO") {
                o.bin = Some(std::path::PathBuf::from(r));
            }
        }
        // the size of the worker pool is a per-chain choice as well (runs that do not set it used to get 2 workers)
        if o.threads.is_none() {
            // (idle rayon workers spin before they sleep: pools far beyond the core count make every block of a long chain
            // expensive, so the large settings - 64, 97, 300 - are left to C13, which uses them on small chains)
            let t = [1u32, 2, 2, 3, 4, 6, 8, 12, 16, 33][((self.vsel >> 58) % 10) as usize];
            o.threads = Some(if self.stale_len() > (24 << 20) { t.min(4) } else { t });
        }
        // a sixth of the chains: TMPDIR on another file system than the dump folder
        if (self.vsel >> 23) % 6 == 0 && o.state_dir.is_none() {
            o.tmp_elsewhere = true;
        }
        // half of the Bitcoin chains are run without `-c` (Bitcoin is the default coin)
        if (self.vsel >> 55) % 2 == 0 {
            o.default_coin = true;
        }
        if o.path_style == 0 {
            o.path_style = match (self.vsel >> 17) % 10 {
                0 => 1,
                1 => 2,
                2 => 3,
                3 => 4,
                _ => 0,
            };
        }
        o
    }
    /// length of the stale temporary files of a 'dirty' dump folder: longer than anything the run can write
    /// (rows are a few times the size of the serialised data they print)
    fn stale_len(&self) -> usize {
        use std::os::unix::fs::MetadataExt;
        let mut total = 0u64;
        if let Ok(rd) = std::fs::read_dir(self.data()) {
            for e in rd.flatten() {
                if let Ok(m) = std::fs::metadata(e.path()) {
                    if m.is_file() {
                        total += m.len().min(m.blocks() * 512);
                    }
                }
            }
        }
        (total.min(8 << 20) as usize) * 8 + (64 << 10)
    }
    pub fn run(&self, o: &RunOpts) -> Result<RunOut, String> {
        let d = self.new_dump();
        // a fifth of the chains write into a dump folder that still holds the (longer) temporary files of an
        // interrupted earlier run of the same callback: the result must be what a fresh folder gives
        if (self.vsel >> 27) % 5 == 0 && o.pause_on.is_none() {
            let junk = vec![b'7'; self.stale_len()];
            for stem in o.callback.stems() {
                std::fs::write(d.join(format!("{}.csv.tmp", stem)), &junk).map_err(|e| e.to_string())?;
            }
        }
        let r = run_tool(&self.data(), &d, &self.with_verbosity(o))?;
        let _ = std::fs::remove_dir_all(&d);
        Ok(r)
    }
    pub fn run_in(&self, dump: &std::path::Path, o: &RunOpts) -> Result<RunOut, String> {
        run_tool(&self.data(), dump, &self.with_verbosity(o))
    }
}

#[macro_export]
macro_rules! infra {
    ($e:expr) => {
        match $e {
            Ok(v) => v,
            Err(m) => return vpmodel::engine::Verdict::Infra(format!("{}", m)),
        }
    };
}

#[macro_export]
macro_rules! holds {
    ($e:expr) => {
        match $e {
            Ok(v) => v,
            Err(m) => return vpmodel::engine::Verdict::Fail(format!("{}", m)),
        }
    };
}

pub fn timed_out_is_infra(out: &RunOut) -> Option<Verdict> {
    if out.deadlocked {
        // not slowness: three attempts in a row ended with every thread of the tool blocked and no CPU time used for
        // 12 s - a state from which the run cannot complete, on an input the property says is handled
        return Some(Verdict::Fail(format!("the tool does not complete on a well-formed input: all its threads are blocked and it uses no CPU time (three attempts in a row): {}", out.describe())));
    }
    if out.timed_out {
        Some(Verdict::Infra(format!("tool run hit the watchdog: {}", out.describe())))
    } else {
        None
    }
}

pub fn range_of<'a>(blocks: &'a [(u64, Block)], s: u64, e: u64) -> Vec<(u64, &'a Block)> {
    blocks.iter().filter(|(h, _)| *h >= s && *h <= e).map(|(h, b)| (*h, b)).collect()
}

pub fn key_of<T: serde::Serialize>(v: &T) -> u64 {
    vpmodel::hashes::fnv64(serde_json::to_string(v).unwrap_or_default().as_bytes())
}

/// canonical form of a run's result for run-vs-run comparison
pub fn canon(cb: vpmodel::run::Callback, out: &RunOut) -> String {
    let so = vpmodel::parse::split_stdout(&out.stdout_text());
    match cb {
        vpmodel::run::Callback::CsvDump => out.files.iter().map(|(n, c)| format!("{}:{}\n", n, vpmodel::hashes::hex(&vpmodel::hashes::sha256(c)))).collect(),
        vpmodel::run::Callback::UnspentCsvDump | vpmodel::run::Callback::Balances => out
            .files
            .iter()
            .map(|(n, c)| {
                let mut rows: Vec<String> = String::from_utf8_lossy(c).lines().map(|s| s.to_string()).collect();
                let head = if rows.is_empty() { String::new() } else { rows.remove(0) };
                rows.sort();
                format!("{}:{}|{}\n", n, head, rows.join(","))
            })
            .collect(),
        vpmodel::run::Callback::SimpleStats => match vpmodel::parse::parse_stats(&so) {
            Ok(r) => format!("{:?}", r),
            Err(e) => format!("unparsable: {}", e),
        },
        vpmodel::run::Callback::OpReturn => so.data,
    }
}

