//! C15 - every simplestats figure equals an independent recomputation over the range.
use crate::common::*;
use crate::{holds, infra, scaled, Args, PropDef};
use proptest::prelude::*;
use serde::{Deserialize, Serialize};
use vpmodel::datadir::canonical_plan;
use vpmodel::engine::{Engine, Pass, Verdict};
use vpmodel::gen::{self, Tier, BS};
use vpmodel::oracle::check_stats;
use vpmodel::run::{Callback, RunOpts};
use vpmodel::spec::{ChainSpec, Src};

pub const DEF: PropDef = PropDef {
    id: "C15",
    level: "exploration",
    rule: "chains on all 8 coins with arbitrary (non-monotonic) u32 timestamps >= 1, every script type, values from classes that produce ties for both maxima, coinbase-shaped transactions in any position, base heights up to 10^7 and, for a quarter of the chains, across a halving boundary 210000*k for k = 1..70 (subsidy one unit in era 32, zero from era 33, shift undefined from era 64), a fifth of the chains with outputs of 2^63 units or more - one, or several so that the total volume, the fee total or one transaction's value exceed 2^64 -, optional --start/--end; the simplestats report is parsed and every figure compared with an independent recomputation: integers exactly (blocks, txs, inputs, outputs, fee units, volume units, biggest value/size with height and txid - first on ties -, per-type counts and first occurrences), means and shares within half a unit of the last printed decimal of the exact rational value. Non-trivial = >=3 blocks, >=2 script types and (a decreasing timestamp pair or timestamp gaps summing beyond 2^32); distinct by chain hash. The thorough tier repeats every case on the release build (wrap-around instead of overflow panic). Part 'more-than-2^16-samples': a 66 300-block chain whose last 700 blocks are bigger and slower (whole and as a range) and a block with 70 000 transactions. Header times include a class within hours of the current wall clock.",
    assumptions: &["timestamps are >= 1 (the tool uses 0 as 'no previous block')", "means with an empty sample (single block: time between blocks) are not pinned down by the statement"],
    run,
    replay,
};

#[derive(Clone, Debug, Serialize, Deserialize)]
pub struct Case {
    pub chain: ChainSpec,
    pub start_sel: Option<u16>,
    pub end_sel: Option<u16>,
}

pub fn strategy(tier: Tier) -> BS<Case> {
    let mut cfg = gen::ChainCfg::new(tier, gen::ordinary_script(tier));
    cfg.nblocks = prop_oneof![1 => 1usize..3, 6 => 3usize..12, 1 => 12usize..30].boxed();
    cfg.ntx = prop_oneof![3 => Just(0usize), 6 => 1usize..5].boxed();
    // a quarter of the chains straddle a subsidy-halving boundary 210000*k, k = 1..70 (the subsidy is one unit in era 32, zero from era 33 on)
    cfg.base = prop_oneof![9 => gen::wide_base(), 3 => (1u64..=70, 0u64..6).prop_map(|(k, d)| 210_000 * k - d)].boxed();
    cfg.time = gen::wild_time();
    // coinbase-shaped inputs in any position, and 'half null' outpoints (zero txid with another
    // index; index 0xffffffff with a non-zero txid) that must NOT count as coinbase
    cfg.tx.src = prop_oneof![12 => gen::default_src(), 2 => Just(Src::Null), 1 => prop_oneof![Just(0u32), Just(0xffff_fffeu32), any::<u32>()].prop_map(Src::ZeroTxid), 1 => any::<u8>().prop_map(|s| Src::Unknown(s, 0xffff_ffff))].boxed();
    cfg.tx.max_common = 4;
    (gen::chain(&cfg), proptest::option::weighted(0.3, any::<u16>()), proptest::option::weighted(0.3, any::<u16>()), proptest::option::weighted(0.2, (any::<[u16; 3]>(), 0u64..1_000_000_000_000, 0u8..6)))
        .prop_map(|(mut chain, start_sel, end_sel, huge)| {
            // outputs of 2^63 units or more: one per chain (mode 0-2), or several, so that the total volume, the
            // fee total (coinbase first outputs) or the value of one transaction exceed 2^64 (modes 3-5; a real
            // Dogecoin chain moves more than 2^64 base units in total)
            if let Some((sel, extra, mode)) = huge {
                let n = chain.blocks.len();
                let big = (1u64 << 63) + extra;
                let pick = |k: usize| vpmodel::spec::mono(sel[k], n);
                match mode {
                    0..=2 => chain.blocks[pick(0)].coinbase.outputs[0].value = big,
                    3 => {
                        // coinbase first outputs of three blocks: volume and fee totals beyond 2^64
                        for k in 0..3 {
                            chain.blocks[pick(k)].coinbase.outputs[0].value = big - k as u64;
                        }
                    }
                    4 => {
                        // later outputs (not counted as fees) in several transactions: volume beyond 2^64
                        for k in 0..3 {
                            let b = &mut chain.blocks[pick(k)];
                            let proto = b.coinbase.outputs[0].clone();
                            b.coinbase.outputs.push(vpmodel::spec::OutSpec { value: big + k as u64, ..proto });
                        }
                    }
                    _ => {
                        // two such outputs in ONE transaction: its own value exceeds 2^64
                        let b = &mut chain.blocks[pick(0)];
                        let proto = b.coinbase.outputs[0].clone();
                        b.coinbase.outputs.push(vpmodel::spec::OutSpec { value: big, ..proto.clone() });
                        b.coinbase.outputs.push(vpmodel::spec::OutSpec { value: u64::MAX, ..proto });
                    }
                }
            }
            Case { chain, start_sel, end_sel }
        })
        .boxed()
}

pub fn check(c: &Case) -> Verdict {
    let built = c.chain.build();
    let (base, tip) = (built.base(), built.tip());
    let n = tip - base + 1;
    let s = base + c.start_sel.map(|x| (x as u64 * n) >> 16).unwrap_or(0);
    let end = c.end_sel.map(|x| s + 1 + ((x as u64 * (tip + 2 - s)) >> 16));
    let e = end.map(|x| x.min(tip)).unwrap_or(tip);
    let mut plan = canonical_plan(built.coin, &built.blocks);
    let w = infra!(World::create("c15", &mut plan));
    let mut o = RunOpts::new(built.coin, Callback::SimpleStats);
    o.start = if s > 0 { Some(s) } else { None };
    o.end = end;
    let range = range_of(&built.blocks, s, e);
    let mut sub = 0;
    let mut bins = vec![vpmodel::run::tool_bin()];
    if let Ok(r) = std::env::var("VP_TOOL_BIN_RELEASE") {
        bins.push(std::path::PathBuf::from(r));
    }
    for (k, bin) in bins.iter().enumerate() {
        let mut o2 = o.clone();
        o2.bin = Some(bin.clone());
        let out = infra!(w.run(&o2));
        sub += 1;
        if let Some(v) = timed_out_is_infra(&out) {
            return v;
        }
        holds!(check_stats(built.coin, &range, &out).map_err(|m| format!("{} build, range {}..={}: {}", if k == 0 { "debug" } else { "release" }, s, e, m)));
    }
    let st = vpmodel::render::stats(built.coin, &range);
    let decreasing = range.windows(2).any(|w| w[1].1.time < w[0].1.time);
    let big_sum = st.sum_gaps > u32::MAX as u128;
    let ntypes = st.types.iter().filter(|(_, t)| t.must > 0).count();
    let mut classes = vec![format!("coin={}", built.coin.cli()), format!("types={}", ntypes.min(6))];
    if decreasing {
        classes.push("decreasing-timestamps".into());
    }
    if big_sum {
        classes.push("gap-sum>2^32".into());
    }
    if st.sum_block_size > u32::MAX as u128 {
        classes.push("size-sum>2^32".into());
    }
    if (base / 210000) != (tip / 210000) {
        classes.push("crosses-halving".into());
    }
    if st.has_open_types {
        classes.push("three-valued-types".into());
    }
    let nontrivial = range.len() >= 3 && ntypes >= 2 && (decreasing || big_sum);
    let sample = serde_json::json!({"coin": built.coin.cli(), "range": format!("{}..={}", s, e), "timestamps": range.iter().take(8).map(|(_, b)| b.time).collect::<Vec<_>>(), "sum_of_gaps": st.sum_gaps.to_string(), "txs": st.txs, "outputs": st.outputs, "types": st.types.iter().map(|(t, s)| format!("{}:{}+{}", t.report_name(), s.must, s.may)).collect::<Vec<_>>()});
    Verdict::Pass(Pass { nontrivial, key: key_of(c), classes, known: vec![], sub_evals: sub, sample: Some(sample), extra_keys: vec![] })
}

fn run(eng: &Engine, a: &Args) {
    let n = if a.tier == Tier::Quick { 300 } else { 3000 };
    let tier = a.tier;
    // regression input of the repaired 32-bit sum (known_findings.json, fixed: C15): timestamps 1, 4e9, 1, 4e9
    let scripts: Vec<Vec<u8>> = (0..4).map(|i| vec![0x51 + i as u8]).collect();
    let mut reg = vpmodel::spec::chain_from_scripts(vpmodel::chain::Coin::Bitcoin, &scripts, &[1000], 1, 1, 0, 1);
    for (b, t) in reg.blocks.iter_mut().zip([1u32, 4_000_000_000, 1, 4_000_000_000]) {
        b.time = t;
    }
    let mut fixed = vec![Case { chain: reg, start_sel: None, end_sel: None }];
    // regression input of the repaired subsidy shift (known_findings.json, fixed: C15): heights around 64 and 65 halvings
    // ... and heights whose halving count no longer fits 32 bits (no node stores such heights, the index format and the
    // tool's u64 do): 2^32, 2^32 + 1 and 2^32 + 33 halvings - the subsidy is zero there, not 50 coins >> (count mod 2^32)
    for base in [13_439_998u64, 13_650_000, 210_000 * (1u64 << 32) - 2, 210_000 * ((1u64 << 32) + 1) - 1, 210_000 * ((1u64 << 32) + 33)] {
        let scripts: Vec<Vec<u8>> = (0..4).map(|i| vec![0x51 + i as u8]).collect();
        fixed.push(Case { chain: vpmodel::spec::chain_from_scripts(vpmodel::chain::Coin::Dogecoin, &scripts, &[3, 1000], 1, 1, base, 1_700_000_000), start_sel: None, end_sel: None });
    }
    // a range that STARTS exactly at a halving height, one above, one below (state seeded from --start must agree with
    // what walking across the boundary gives)
    for (k, coin) in [vpmodel::chain::Coin::Bitcoin, vpmodel::chain::Coin::Litecoin].iter().enumerate() {
        let scripts: Vec<Vec<u8>> = (0..8).map(|i| vec![0x51 + i as u8]).collect();
        let base = 210_000 * (1 + k as u64 * 2) - 2;
        for sel in [0u16, 8_200, 16_400, 24_600, 32_800] {
            fixed.push(Case { chain: vpmodel::spec::chain_from_scripts(*coin, &scripts, &[3_000_000_000, 1000], 1, 1, base, 1_600_000_000), start_sel: Some(sel), end_sel: None });
        }
    }
    // the biggest transaction carries a script whose length sits on a CompactSize boundary
    for (k, len) in [252usize, 253, 254, 65534, 65535, 65536].iter().enumerate() {
        let mut scripts: Vec<Vec<u8>> = (0..5).map(|i| vec![0x52 + i as u8]).collect();
        scripts[2] = vec![0x6a; *len];
        scripts[2][0] = 0x51;
        let coin = vpmodel::chain::ALL_COINS[k % 8];
        fixed.push(Case { chain: vpmodel::spec::chain_from_scripts(coin, &scripts, &[7_000, 9_000], 1, 2, 0, 1_500_000_000), start_sel: None, end_sel: None });
    }
    // regression inputs of the repaired 64-bit sums (known_findings.json, fixed: C15): total volume and fee total
    // beyond 2^64 (three coinbases of 2^63 units), and one transaction worth more than 2^64
    for mode in 0..2 {
        let scripts: Vec<Vec<u8>> = (0..6).map(|i| vec![0x51 + i as u8]).collect();
        let mut ch = vpmodel::spec::chain_from_scripts(vpmodel::chain::Coin::Dogecoin, &scripts, &[7, 1000], 1, 2, 0, 1_600_000_000);
        if mode == 0 {
            for b in ch.blocks.iter_mut() {
                b.coinbase.outputs[0].value = 1u64 << 63;
            }
        } else {
            let proto = ch.blocks[1].coinbase.outputs[0].clone();
            ch.blocks[1].coinbase.outputs.push(vpmodel::spec::OutSpec { value: u64::MAX, ..proto.clone() });
            ch.blocks[1].coinbase.outputs.push(vpmodel::spec::OutSpec { value: u64::MAX - 5, ..proto });
        }
        fixed.push(Case { chain: ch, start_sel: None, end_sel: None });
    }
    // all transaction values 0 or 1: the biggest-value transaction is worth exactly one unit (second sweep survivor:
    // a start value of 1 instead of 0 for the running maximum)
    for (k, vals) in [vec![0u64, 0, 1, 0, 0], vec![1u64], vec![0u64, 1, 1], vec![0u64, 0, 0, 2]].iter().enumerate() {
        let scripts: Vec<Vec<u8>> = (0..7).map(|i| vec![0x52 + i as u8]).collect();
        fixed.push(Case { chain: vpmodel::spec::chain_from_scripts(vpmodel::chain::ALL_COINS[(k * 3) % 8], &scripts, vals, 1, 2, 0, 1_500_000_000), start_sel: None, end_sel: None });
    }
    // ties for both maxima INSIDE one block and across blocks (the first one counts): transactions 0 and 2 of every block
    // have the same size and the same value, larger than the others; block 2 repeats the shapes of block 1
    for (k, coin) in [vpmodel::chain::Coin::Bitcoin, vpmodel::chain::Coin::Dogecoin].iter().enumerate() {
        let scripts: Vec<Vec<u8>> = (0..12usize).map(|i| { let len = [40usize, 3, 40, 5][i % 4]; let mut s = vec![0x51 + (i % 4) as u8]; s.extend(std::iter::repeat((i / 4) as u8 + 0x60 + k as u8).take(len)); s }).collect();
        fixed.push(Case { chain: vpmodel::spec::chain_from_scripts(*coin, &scripts, &[9_000_000, 1, 9_000_000, 2], 1, 4, 0, 1_500_000_000), start_sel: None, end_sel: None });
    }
    eng.enumerate("fixed-defect-regressions", fixed, check);
    // sample counts beyond 2^16: (1) 66 300 blocks whose last 700 are several times bigger and twelve times slower than
    // the rest (a mean that is not sum / count shows in the block-size and block-interval figures), whole and as a
    // range; (2) one block with 70 000 transactions (per-transaction means over more than 2^16 samples)
    let scripts: Vec<Vec<u8>> = (0..66_300usize).map(|i| { let mut s = vec![0x76, 0xa9, 0x14]; s.extend([(i & 0xff) as u8, (i >> 8) as u8, (i >> 16) as u8].iter().cycle().take(20)); s.extend([0x88, 0xac]); s }).collect();
    let mut l1 = vpmodel::spec::chain_from_scripts(vpmodel::chain::Coin::Litecoin, &scripts, &[1000, 2500, 7], 1, 1, 0, 1_300_000_000);
    for (k, b) in l1.blocks.iter_mut().enumerate().skip(65_600) {
        let proto = b.txs[0].outputs[0].clone();
        for j in 0..40u64 {
            b.txs[0].outputs.push(vpmodel::spec::OutSpec { value: 10 + j, ..proto.clone() });
        }
        b.time = 1_300_000_000 + 600 * 65_600 + 7200 * (k as u32 - 65_600);
    }
    let scripts: Vec<Vec<u8>> = (0..70_003usize).map(|i| vec![0x51 + (i % 16) as u8, 0x75, (i & 0x7f) as u8 | 0x80, 0x75]).collect();
    let l2 = vpmodel::spec::chain_from_scripts(vpmodel::chain::Coin::Bitcoin, &scripts, &[5, 60_000, 0], 1, 70_000, 0, 1_400_000_000);
    eng.enumerate("more-than-2^16-samples", vec![Case { chain: l1.clone(), start_sel: None, end_sel: None }, Case { chain: l1, start_sel: Some(3), end_sel: Some(65_400) }, Case { chain: l2, start_sel: None, end_sel: None }], check);
    eng.explore("stats-vs-recomputation", scaled(n, a), move || strategy(tier), check);
}

fn replay(part: &str, case: serde_json::Value) -> Option<Verdict> {
    match part {
        "stats-vs-recomputation" | "fixed-defect-regressions" | "more-than-2^16-samples" => Some(check(&serde_json::from_value(case).ok()?)),
        _ => None,
    }
}
