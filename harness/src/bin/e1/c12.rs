//! C12 - AuxPoW headers are skipped exactly, leaving block hash and txs unaffected.
use crate::common::*;
use crate::{holds, infra, scaled, Args, PropDef};
use proptest::prelude::*;
use serde::{Deserialize, Serialize};
use vpmodel::chain::{genesis_block, Coin};
use vpmodel::datadir::canonical_plan;
use vpmodel::engine::{Engine, Pass, Verdict};
use vpmodel::gen::{self, Tier, BS};
use vpmodel::oracle::check_csvdump;
use vpmodel::run::{Callback, RunOpts};
use vpmodel::spec::ChainSpec;

pub const DEF: PropDef = PropDef {
    id: "C12",
    level: "exploration",
    rule: "chains on Namecoin/Dogecoin mixing block versions below, one below, equal to, one above and far above the coin's AuxPoW threshold (and high-bit versions), each block at or above the threshold carrying a generated AuxPoW section (parent coinbase in legacy or BIP144 form with any shape, branch lengths 0..40 incl. 32, arbitrary masks; plus two fixed blocks whose transactions total just under 4 000 000 bytes while the stored record with its section exceeds that); the six other coins with the same versions and no section as negative control; runs at verbosity 0, -v, -vv and -vvv. Oracle: csvdump == reference model (block hash, tx rows; blocksize = stored prefix including the section) with --verify; plus the metamorphic relation: the same logical blocks stored without sections under a coin without AuxPoW give identical blocks (except blocksize), transactions and tx_in files and identical tx_out rows except the address column. Non-trivial = a block with a section whose two branch lengths differ, or a block exactly at threshold or threshold-1; distinct by case hash.",
    assumptions: &["the AuxPoW rule is the statement's: section present iff version >= threshold (0x10101 namecoin, 0x620102 dogecoin) compared as unsigned"],
    run,
    replay,
};

#[derive(Clone, Debug, Serialize, Deserialize)]
pub struct Case {
    pub chain: ChainSpec,
    pub verify: bool,
    /// -v / -vv / -vvv: logging must not change what is delivered
    #[serde(default)]
    pub verbose: u8,
}

pub fn strategy(tier: Tier) -> BS<Case> {
    let mut cfg = gen::ChainCfg::new(tier, gen::ordinary_script(tier));
    cfg.coin = prop_oneof![4 => Just(Coin::Namecoin), 4 => Just(Coin::Dogecoin), 2 => gen::any_coin()].boxed();
    cfg.nblocks = (1usize..=8).boxed();
    cfg.ntx = prop_oneof![4 => Just(0usize), 4 => 1usize..4].boxed();
    cfg.tx.max_common = 3;
    cfg.tx.max_value = u64::MAX;
    (gen::chain(&cfg), any::<bool>(), prop_oneof![5 => Just(0u8), 1 => Just(1u8), 2 => Just(2u8), 1 => Just(3u8)]).prop_map(|(mut chain, verify, verbose)| {
        let verify = verify && genesis_block(chain.coin).is_some();
        chain.real_genesis = verify;
        Case { chain, verify, verbose }
    }).boxed()
}

pub fn check(c: &Case) -> Verdict {
    let built = c.chain.build();
    let coin = built.coin;
    let mut plan = canonical_plan(coin, &built.blocks);
    let w = infra!(World::create("c12", &mut plan));
    let mut o = RunOpts::new(coin, Callback::CsvDump);
    o.verify = c.verify;
    o.verbose = c.verbose;
    let out = infra!(w.run(&o));
    if let Some(v) = timed_out_is_infra(&out) {
        return v;
    }
    let all = built.all();
    holds!(check_csvdump(coin, &all, &out, 0));
    let mut classes = vec![format!("coin={}", coin.cli()), format!("verify={}", c.verify), format!("verbosity={}", c.verbose)];
    let mut nontrivial = false;
    let th = coin.auxpow_threshold();
    let mut with_section = 0;
    for (_, b) in &built.blocks {
        if let Some(a) = &b.auxpow {
            with_section += 1;
            if a.cb_branch.len() != a.chain_branch.len() {
                nontrivial = true;
                classes.push("branches-differ".into());
            }
            if a.cb_branch.is_empty() || a.chain_branch.is_empty() {
                classes.push("empty-branch".into());
            }
            if a.cb_branch.len() >= 32 || a.chain_branch.len() >= 32 {
                classes.push("branch>=32".into());
            }
            if a.coinbase.segwit {
                classes.push("parent-coinbase-segwit".into());
            }
        }
        if let Some(t) = th {
            if b.version == t {
                classes.push("version==threshold".into());
                nontrivial = true;
            } else if b.version == t - 1 {
                classes.push("version==threshold-1".into());
                nontrivial = true;
            } else if b.version >= 0x8000_0000 {
                classes.push("version-high-bit".into());
            }
        } else if b.version >= 0x10101 {
            classes.push("high-version-on-non-auxpow-coin".into());
        }
    }
    let mut sub = 1;
    // metamorphic partner: same logical blocks without sections under a coin without AuxPoW
    if th.is_some() && with_section > 0 {
        let mut plain = built.clone();
        plain.coin = Coin::Litecoin;
        for (_, b) in plain.blocks.iter_mut() {
            b.auxpow = None;
        }
        let mut plan2 = canonical_plan(Coin::Litecoin, &plain.blocks);
        let w2 = infra!(World::create("c12b", &mut plan2));
        let out2 = infra!(w2.run(&RunOpts::new(Coin::Litecoin, Callback::CsvDump)));
        sub += 1;
        if !out2.ok() {
            return Verdict::Fail(format!("partner run without sections failed: {}", out2.describe()));
        }
        let tip = built.tip();
        let get = |o: &vpmodel::run::RunOut, stem: &str| String::from_utf8_lossy(o.files.get(&format!("{}-0-{}.csv", stem, tip)).map(|v| v.as_slice()).unwrap_or(b"")).into_owned();
        for stem in ["transactions", "tx_in"] {
            if get(&out, stem) != get(&out2, stem) {
                return Verdict::Fail(format!("{} rows differ between the chain with AuxPoW sections and the same blocks without: {}", stem, vpmodel::oracle::first_diff(&get(&out2, stem), &get(&out, stem))));
            }
        }
        let strip = |s: String, col: usize| -> String { s.lines().map(|l| l.split(';').enumerate().filter(|(i, _)| *i != col).map(|(_, f)| f).collect::<Vec<_>>().join(";")).collect::<Vec<_>>().join("\n") };
        if strip(get(&out, "tx_out"), 4) != strip(get(&out2, "tx_out"), 4) {
            return Verdict::Fail("tx_out rows (address column aside) differ between the chain with AuxPoW sections and the same blocks without".into());
        }
        if strip(get(&out, "blocks"), 3) != strip(get(&out2, "blocks"), 3) {
            return Verdict::Fail(format!("blocks rows (blocksize aside) differ between the chain with AuxPoW sections and the same blocks without: {}", vpmodel::oracle::first_diff(&strip(get(&out2, "blocks"), 3), &strip(get(&out, "blocks"), 3))));
        }
    }
    classes.sort();
    classes.dedup();
    let sample = serde_json::json!({"coin": coin.cli(), "verify": c.verify, "blocks": built.blocks.iter().map(|(h, b)| serde_json::json!({"height": h, "version": format!("{:#x}", b.version), "auxpow": b.auxpow.as_ref().map(|a| format!("cb-branch {} chain-branch {} parent-cb {}in/{}out{}", a.cb_branch.len(), a.chain_branch.len(), a.coinbase.inputs.len(), a.coinbase.outputs.len(), if a.coinbase.segwit {" segwit"} else {""}))})).collect::<Vec<_>>()});
    Verdict::Pass(Pass { nontrivial, key: key_of(c), classes, known: vec![], sub_evals: sub, sample: Some(sample), extra_keys: vec![] })
}

fn run(eng: &Engine, a: &Args) {
    let n = if a.tier == Tier::Quick { 300 } else { 3000 };
    let tier = a.tier;
    eng.explore("auxpow-chains", scaled(n, a), move || strategy(tier), check);
    // fixed cases: a block whose transactions stay just below 4 000 000 bytes while the stored record
    // (with its AuxPoW section: 1000-entry branches) exceeds it
    let mut big = Vec::new();
    for coin in [Coin::Dogecoin, Coin::Namecoin] {
        let th = coin.auxpow_threshold().unwrap();
        let scripts: Vec<Vec<u8>> = (0..40usize).map(|i| { let mut s = vec![0x51u8; 99_640]; s[1] = i as u8; s }).collect();
        let mut chain = vpmodel::spec::chain_from_scripts(coin, &scripts, &[1], 1, 40, 0, 1_400_000_000);
        for b in chain.blocks.iter_mut() {
            b.version = th + 1;
            b.auxpow = Some(vpmodel::spec::AuxPowSpec { coinbase: b.coinbase.clone(), seed: 7, cb_branch_len: 1000, cb_mask: 5, chain_branch_len: 1000, chain_mask: 9 });
        }
        big.push(Case { chain, verify: false, verbose: 0 });
    }
    eng.enumerate("near-4MB-block-with-section", big, check);
}

fn replay(part: &str, case: serde_json::Value) -> Option<Verdict> {
    match part {
        "auxpow-chains" | "near-4MB-block-with-section" => Some(check(&serde_json::from_value(case).ok()?)),
        _ => None,
    }
}
