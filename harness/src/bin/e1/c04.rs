//! C04 - only active-chain blocks are delivered; stale and header-only records never are.
use crate::common::*;
use crate::{infra, scaled, Args, PropDef};
use proptest::prelude::*;
use serde::{Deserialize, Serialize};
use vpmodel::chain::Block;
use vpmodel::datadir::{canonical_plan, rec_for, Seg, FAILED_CHILD, FAILED_VALID, HAVE_DATA, HAVE_UNDO, VALID_SCRIPTS, VALID_TRANSACTIONS, VALID_TREE};
use vpmodel::engine::{Engine, Pass, Verdict};
use vpmodel::gen::{self, Tier, BS};
use vpmodel::oracle::check_callback;
use vpmodel::run::{Callback, RunOpts};
use vpmodel::spec::{mono, ChainSpec};

pub const DEF: PropDef = PropDef {
    id: "C04",
    level: "exploration",
    rule: "an active chain plus generated extra index records: header-only records (status VALID_TREE or VALID_HEADER, optionally with FAILED_VALID / FAILED_CHILD / OPT_WITNESS bits; no file fields) at occupied heights and beyond the tip, never-connected stale siblings with data (status 3|8), failed blocks (3|8|32, 5|8|16|64) and reorged-out branches of length 1..3 (status 29) at occupied heights below the tip; each competitor's hash is steered (nonce search) to sort before or after the active block's hash as LevelDB key. Runs with and without --verify (--verify only where no competitor is predicted to win, since a delivered competitor fails its successor's prev-hash verification). csvdump/unspentcsvdump/balances output must equal the reference model of the ACTIVE chain. Open finding D7 (known_findings.json): when the output instead equals, exactly, the prediction 'per height the data-bearing record with the greatest key wins', the case is reported as KNOWN-FINDING; any other deviation is a violation. Non-trivial = at least one data-bearing competitor or header-only record at an occupied height; distinct by (extras multiset, key-order pattern). 30-40 % of the cases carry --start / --end (both expectations are restricted to the range).",
    assumptions: &["steady-state index: the active tip is strictly higher than every other record of validity VALID_SCRIPTS", "header-only records carry a header whose version bytes terminate the two VarInts the tool reads past the record fields (true of real headers)"],
    run,
    replay,
};

pub const D7_SIG: &str = "D7: a competing index record with block data at an occupied height (stale sibling / failed block / reorged-out branch) is delivered instead of the active block when its hash sorts later as LevelDB key (one record per height kept, last insert wins)";

/// the finding only suppresses a violation while it is listed as open in /verif/known_findings.json
fn d7_listed() -> bool {
    static LISTED: std::sync::OnceLock<bool> = std::sync::OnceLock::new();
    *LISTED.get_or_init(|| {
        let path = std::env::var("VP_KNOWN_FINDINGS").unwrap_or_else(|_| "/verif/known_findings.json".into());
        std::fs::read_to_string(path).ok().and_then(|t| serde_json::from_str::<serde_json::Value>(&t).ok()).map(|d| d["open"].as_array().map(|a| a.iter().any(|e| e["id"] == "D7" && e["property"] == "C04")).unwrap_or(false)).unwrap_or(false)
    })
}

#[derive(Clone, Copy, Debug, PartialEq, Eq, Serialize, Deserialize)]
pub enum Kind {
    HeaderOnly,
    Stale,
    FailedValid,
    FailedChild,
    Reorged,
}

#[derive(Clone, Debug, Serialize, Deserialize)]
pub struct Extra {
    pub kind: Kind,
    /// selects an occupied height (1..=tip-1 for data-bearing ones, 0..=tip for header-only)
    pub at: u16,
    /// header-only: place it this far beyond the tip instead (0 = at an occupied height)
    pub beyond: u8,
    /// desired key order relative to the active block of that height
    pub later_key: bool,
    /// Reorged: branch length
    pub branch: u8,
}

#[derive(Clone, Debug, Serialize, Deserialize)]
pub struct Case {
    pub chain: ChainSpec,
    pub extras: Vec<Extra>,
    pub cb: Callback,
    /// run with --verify (only effective when the D7 prediction equals the active chain: a delivered
    /// competitor would fail the prev-hash verification of its successor)
    #[serde(default)]
    pub verify: bool,
    /// --start / --end selectors (None = option absent)
    #[serde(default)]
    pub start_sel: Option<u16>,
    #[serde(default)]
    pub end_sel: Option<u16>,
}

pub fn strategy(tier: Tier) -> BS<Case> {
    let mut cfg = gen::ChainCfg::new(tier, gen::c16_script(tier));
    cfg.nblocks = (3usize..=10).boxed();
    cfg.ntx = prop_oneof![3 => Just(0usize), 5 => 1usize..3].boxed();
    cfg.tx.max_common = 3;
    let extra = (prop_oneof![3 => Just(Kind::HeaderOnly), 3 => Just(Kind::Stale), 1 => Just(Kind::FailedValid), 1 => Just(Kind::FailedChild), 2 => Just(Kind::Reorged)], any::<u16>(), prop_oneof![2 => Just(0u8), 1 => 1u8..5], any::<bool>(), 1u8..=3)
        .prop_map(|(kind, at, beyond, later_key, branch)| Extra { kind, at, beyond, later_key, branch });
    (gen::chain(&cfg), proptest::collection::vec(extra, 1..=4), proptest::sample::select(vec![Callback::CsvDump, Callback::CsvDump, Callback::UnspentCsvDump, Callback::Balances]), proptest::bool::weighted(0.4), proptest::option::weighted(0.3, any::<u16>()), proptest::option::weighted(0.4, any::<u16>())).prop_map(|(mut chain, extras, cb, verify, start_sel, end_sel)| {
        // --verify needs the coin's real genesis block at height 0
        chain.real_genesis = chain.real_genesis || verify;
        Case { chain, extras, cb, verify, start_sel, end_sel }
    }).boxed()
}

/// a competitor of `active` at the same height: other nonce, marked coinbase output
pub fn competitor(active: &Block, prev: [u8; 32], later: bool, salt: u32) -> Block {
    let mut b = active.clone();
    b.prev = prev;
    // a recognisable payment so that a delivered competitor changes every callback's output
    b.txs[0].outputs.push(vpmodel::chain::TxOut { value: 777_000 + salt as u64, script: { let mut s = vec![0x76, 0xa9, 0x14]; s.extend([0xEE; 20]); s.extend([0x88, 0xac]); s } });
    b.merkle = b.compute_merkle();
    let ah = active.hash();
    for n in 0..10_000u32 {
        b.nonce = active.nonce.wrapping_add(1 + n).wrapping_add(salt.wrapping_mul(7919));
        let h = b.hash();
        if (h > ah) == later && h != ah {
            break;
        }
    }
    b
}

pub struct Prepared {
    pub plan: vpmodel::datadir::Plan,
    /// candidates[i] = blocks with data at the height of active block i (the active one first)
    pub candidates: Vec<Vec<Block>>,
    pub pattern: Vec<String>,
    pub interesting: bool,
}

/// the data directory plan of a case: canonical active chain in blk00000.dat, competitors' data in blk00001.dat
pub fn prepare(c: &Case, built: &vpmodel::spec::Built) -> Prepared {
    let tip = built.tip();
    let n = built.blocks.len();
    let mut plan = canonical_plan(built.coin, &built.blocks);
    // active records carry the status words a node really stores for connected blocks: with or without undo data
    // (genesis has none), with OPT_WITNESS (128), with the assumeutxo flag (256, with validity TRANSACTIONS or SCRIPTS)
    for r in plan.recs.iter_mut() {
        let base = VALID_SCRIPTS | HAVE_DATA | HAVE_UNDO;
        r.status = [base, base, base | 128, VALID_SCRIPTS | HAVE_DATA, base | 256, VALID_TRANSACTIONS | HAVE_DATA | 256, base | 128 | 256, VALID_SCRIPTS | HAVE_DATA | 128][(r.hash[5] % 8) as usize];
    }
    // extra records + data (appended to a second file)
    let mut extra_segs: Vec<Seg> = Vec::new();
    // winners[height] = candidate blocks with data at that height (hash, block) incl. the active one
    let mut candidates: Vec<Vec<Block>> = built.blocks.iter().map(|(_, b)| vec![b.clone()]).collect();
    let mut pattern = Vec::new();
    let mut interesting = false;
    for (k, e) in c.extras.iter().enumerate() {
        match e.kind {
            Kind::HeaderOnly => {
                let (height, proto, prev) = if e.beyond > 0 {
                    (tip + e.beyond as u64, built.blocks[n - 1].1.clone(), built.blocks[n - 1].1.hash())
                } else {
                    let i = mono(e.at, n);
                    interesting = true;
                    (built.blocks[i].0, built.blocks[i].1.clone(), built.blocks[i].1.prev)
                };
                let mut b = proto;
                b.prev = prev;
                b.version = [1u32, 2, 4, 0x2000_0000, 0x3fff_e000][k % 5];
                b.nonce = b.nonce.wrapping_add(0x1000 + k as u32);
                // header-only statuses a node really stores: plain VALID_TREE / VALID_HEADER, and the same
                // with FAILED_VALID / FAILED_CHILD (headers of a rejected branch) or OPT_WITNESS
                let st = [VALID_TREE, 1, VALID_TREE | FAILED_CHILD, VALID_TREE | FAILED_VALID, 1 | FAILED_CHILD, VALID_TREE | 128, VALID_TREE, VALID_TREE | FAILED_CHILD | 128][(e.at as usize + k) % 8];
                let mut r = rec_for(&b, height, st);
                r.ntx = 0;
                plan.recs.push(r);
                pattern.push(format!("H{}", if e.beyond > 0 { "+" } else { "=" }));
            }
            _ => {
                if n < 3 {
                    continue;
                }
                // occupied heights strictly below the tip and above the first block
                let i = 1 + mono(e.at, n - 2);
                let len = if e.kind == Kind::Reorged { (e.branch as usize).min(n - 1 - i).max(1) } else { 1 };
                let status = match e.kind {
                    Kind::Stale => VALID_TRANSACTIONS | HAVE_DATA,
                    Kind::FailedValid => VALID_TRANSACTIONS | HAVE_DATA | FAILED_VALID,
                    Kind::FailedChild => VALID_SCRIPTS | HAVE_DATA | HAVE_UNDO | FAILED_CHILD,
                    _ => VALID_SCRIPTS | HAVE_DATA | HAVE_UNDO,
                };
                let mut prev = built.blocks[i].1.prev;
                for j in 0..len {
                    let comp = competitor(&built.blocks[i + j].1, prev, e.later_key, (k * 10 + j) as u32);
                    prev = comp.hash();
                    plan.recs.push(rec_for(&comp, built.blocks[i + j].0, status));
                    extra_segs.push(Seg::Blk { bytes: comp.ser(), rec: Some(plan.recs.len() - 1), magic: built.coin.magic() });
                    candidates[i + j].push(comp);
                }
                interesting = true;
                pattern.push(format!("{:?}{}{}", e.kind, if e.later_key { ">" } else { "<" }, len));
            }
        }
    }
    if !extra_segs.is_empty() {
        plan.files.push(vpmodel::datadir::PFile { number: 1, name: vpmodel::datadir::blk_name(1, 5), segs: extra_segs, linked: false });
    }
    Prepared { plan, candidates, pattern, interesting }
}

pub fn check(c: &Case) -> Verdict {
    let built = c.chain.build();
    let tip = built.tip();
    let n = built.blocks.len();
    let Prepared { mut plan, candidates, mut pattern, interesting } = prepare(c, &built);
    // half of the indexes went through a node's write history (records first stored header-only / with older positions,
    // deleted records): only the final content counts
    plan.ldb_history = c.extras.first().map(|e| e.at & 1 == 1).unwrap_or(false);
    plan.ldb_small_buffer = c.extras.first().map(|e| e.at & 2 == 2).unwrap_or(false);
    // a tenth of the indexes hold thousands of header-only records beyond the tip (headers-first sync: a node knows
    // far more headers than blocks), so that the block records spread over several thousand keys
    if c.extras.first().map(|e| e.at % 10 == 3).unwrap_or(false) {
        let proto = built.blocks[n - 1].1.clone();
        let count = 4300 + (c.extras.first().map(|e| e.at as u32 / 10 % 4).unwrap_or(0)) * 5000;
        for k in 0..count {
            let mut b = proto.clone();
            b.nonce = b.nonce.wrapping_add(0x10_0000 + k);
            b.version = 2;
            let mut r = rec_for(&b, tip + 1 + k as u64, VALID_TREE);
            r.ntx = 0;
            plan.recs.push(r);
        }
    }
    let w = infra!(World::create("c04", &mut plan));
    let mut o = RunOpts::new(built.coin, c.cb);
    // defect prediction (D7): greatest key among the data-bearing records of a height wins
    let predicted: Vec<(u64, Block)> = candidates.iter().enumerate().map(|(i, cs)| (built.blocks[i].0, cs.iter().max_by_key(|b| b.hash()).unwrap().clone())).collect();
    let differs = predicted.iter().zip(built.blocks.iter()).any(|(p, a)| p.1.hash() != a.1.hash());
    let verify = c.verify && !differs && c.chain.base == 0 && c.chain.real_genesis && vpmodel::chain::genesis_block(built.coin).is_some();
    o.verify = verify;
    // a range: the records of the other heights (competitors included) must not influence what is delivered inside it
    let s = c.start_sel.map(|x| (x as u64 * (tip + 1)) >> 16).unwrap_or(0);
    let end = c.end_sel.map(|x| s + 1 + ((x as u64 * (tip + 2 - s)) >> 16));
    let e = end.map(|x| x.min(tip)).unwrap_or(tip);
    o.start = if c.start_sel.is_some() { Some(s) } else { None };
    o.end = end;
    let out = infra!(w.run(&o));
    if let Some(v) = timed_out_is_infra(&out) {
        return v;
    }
    let active = range_of(&built.blocks, s, e);
    let correct = check_callback(c.cb, built.coin, &active, &out, s);
    let mut known = vec![];
    if let Err(m) = &correct {
        let pr: Vec<(u64, &Block)> = range_of(&predicted, s, e);
        if d7_listed() && differs && check_callback(c.cb, built.coin, &pr, &out, s).is_ok() {
            known.push(D7_SIG.to_string());
        } else {
            return Verdict::Fail(format!("{} output is neither that of the active chain nor the known-finding prediction (extras {:?}): {}", c.cb.cli(), pattern, m));
        }
    }
    pattern.sort();
    let classes: Vec<String> = pattern.iter().map(|p| format!("extra={}", p)).chain(std::iter::once(format!("cb={}", c.cb.cli()))).chain(std::iter::once(format!("verify={}", verify))).chain(std::iter::once(format!("ranged={}", c.start_sel.is_some() || c.end_sel.is_some()))).chain(std::iter::once(format!("outcome={}", if known.is_empty() { "active-chain" } else { "known-finding-D7" }))).collect();
    let sample = serde_json::json!({"coin": built.coin.cli(), "tip": tip, "extras": pattern, "callback": c.cb.cli(), "verify": verify, "outcome": if known.is_empty() { "active chain delivered" } else { "D7 prediction" }});
    Verdict::Pass(Pass { nontrivial: interesting, key: vpmodel::hashes::fnv64(format!("{:?}|{}|{}", pattern, n, c.cb.cli()).as_bytes()), classes, known, sub_evals: 1, sample: Some(sample), extra_keys: vec![] })
}

fn run(eng: &Engine, a: &Args) {
    let n = if a.tier == Tier::Quick { 400 } else { 5000 };
    let tier = a.tier;
    eng.explore("active-chain-only", scaled(n, a), move || strategy(tier), check);
}

fn replay(part: &str, case: serde_json::Value) -> Option<Verdict> {
    match part {
        "active-chain-only" => Some(check(&serde_json::from_value(case).ok()?)),
        _ => None,
    }
}
