//! C09 - --verify accepts exactly the chains whose merkle roots and prev-hash links hold.
use crate::common::*;
use crate::{infra, scaled, Args, PropDef};
use proptest::prelude::*;
use serde::{Deserialize, Serialize};
use vpmodel::chain::{genesis_block, Coin, ALL_COINS};
use vpmodel::datadir::{canonical_plan, Seg};
use vpmodel::engine::{Engine, Pass, Verdict};
use vpmodel::gen::{self, Tier, BS};
use vpmodel::oracle::check_callback;
use vpmodel::parse::error_height;
use vpmodel::run::{Callback, RunOpts};
use vpmodel::spec::{mono, ChainSpec};

pub const DEF: PropDef = PropDef {
    id: "C09",
    level: "exploration",
    rule: "part 'complete': consistent chains on all 8 coins (real genesis block for 7; NoteBlockchain only with --start>=1) whose blocks hold 1..300 txs covering every merkle tree shape class (powers of two, 2^k+-1, odd at several levels), any --start/--end: with --verify the run must exit 0 and produce exactly the output of the run without --verify. part 'faults': one fault operator applied to block h: single-bit flip in (a) non-witness tx bytes, (b) the merkle field, (c) the prev field; (d) block replaced by a block of a foreign chain or by a copy of the coin's own genesis block; (e) another coin's genesis block at height 0; (f) synthetic block at height 0. If h is in the processed range the run must exit non-zero, name no other height than h in 'Error at height', and leave no final-named file; if h is outside the range the run must succeed with unchanged output. part 'every-bit-of-one-block': every single-bit flip of the merkle field, the prev field and all transaction bytes of the last block of a two-block chain, which ends its blk file (coinbase-only block in the quick tier, three transactions in the thorough tier). Non-trivial = fault at h>start (prev taken from the index), at h==start>0 (retained start-1 record), or a consistent block with >=3 txs; distinct by (tree-shape class, fault kind, position class, coin). Consistent chains may hold verbatim duplicate transactions (a quarter of them right behind the original: equal sibling nodes in the merkle tree) and duplicate coinbases.",
    assumptions: &["header fields other than merkle root and prev hash are not claimed by the statement and are not faulted", "fault cases use legacy transactions and non-AuxPoW blocks so that every tx byte is covered by a txid"],
    run,
    replay,
};

#[derive(Clone, Copy, Debug, PartialEq, Eq, Serialize, Deserialize)]
pub enum FaultKind {
    TxBit,
    MerkleBit,
    PrevBit,
    ForeignBlock,
    WrongGenesis,
    SyntheticGenesis,
    /// block h >= 1 replaced by a copy of the coin's real genesis block
    GenesisCopy,
    /// the stored block h-1 (h >= 2) gets another nonce - its header no longer hashes to the indexed hash of height
    /// h-1 - and the prev field of the stored block h is pointed at that new header hash: the two stored blocks link
    /// to each other, but block h's prev-hash is not the INDEXED hash of the preceding height
    Relinked,
    /// the index holds, besides the active record of height h-1, a stale sibling with data (its hash sorts before the
    /// active one's, so it never becomes the record of its height), and the prev field of the stored block h names that
    /// sibling: a hash the index knows, at the right height - but not THE indexed hash of the preceding height
    PrevToSibling,
    /// one bit of the version, time, bits or nonce field of the stored block 0 is flipped while its index record keeps
    /// the genesis hash as key: the block read from disk no longer hashes to the published genesis hash
    GenesisHeaderBit,
}

#[derive(Clone, Debug, Serialize, Deserialize)]
pub struct Fault {
    pub kind: FaultKind,
    pub h: u16,
    pub bit: u32,
    /// MerkleBit only: the same flip is applied to this many further blocks right after the selected one (a run must
    /// fail however many blocks are bad - 2, 255, 256, 257, ...)
    #[serde(default)]
    pub more: u16,
}

#[derive(Clone, Debug, Serialize, Deserialize)]
pub struct Case {
    pub chain: ChainSpec,
    pub start: u16,
    pub end: Option<u16>,
    pub fault: Option<Fault>,
    pub cb: Callback,
    /// stop the tool for 10.5 s right after it announced the first block, so that the driver's 10-second progress
    /// line (and whatever housekeeping hangs on it) runs inside the verified block loop
    #[serde(default)]
    pub pause: bool,
}

fn tree_shapes() -> BS<usize> {
    // number of non-coinbase txs; total = n+1
    prop_oneof![
        6 => 0usize..9,
        3 => prop_oneof![Just(14usize), Just(15usize), Just(16usize), Just(30usize), Just(31usize), Just(32usize), Just(62usize), Just(63usize), Just(64usize)],
        2 => prop_oneof![Just(126usize), Just(127usize), Just(128usize), Just(254usize), Just(255usize), Just(256usize)],
        2 => 9usize..300,
    ].boxed()
}

fn chain_cfg(tier: Tier, faults: bool) -> gen::ChainCfg {
    // mostly tiny scripts (hundreds of txs per block), sometimes lengths on the CompactSize boundary:
    // the raw length encoding is part of what a txid covers
    let script = prop_oneof![6 => gen::t_p2pkh(), 4 => gen::t_p2sh(), 4 => gen::t_witness(false), 4 => Just(vec![0x51u8]).boxed(), 1 => prop_oneof![Just(0xfcusize), Just(0xfdusize), Just(0xfeusize), Just(0x100usize)].prop_flat_map(gen::bytes)].boxed();
    let mut cfg = gen::ChainCfg::new(tier, script);
    cfg.nblocks = (1usize..=7).boxed();
    cfg.ntx = tree_shapes();
    cfg.tx.max_common = 2;
    cfg.tx.scriptsig_len = prop_oneof![40 => 0usize..6, 1 => prop_oneof![Just(0xfcusize), Just(0xfdusize), Just(0xfeusize)]].boxed();
    cfg.tx.big_counts = !faults;
    cfg.tx.allow_segwit = !faults;
    cfg.real_genesis = Just(true).boxed();
    // verbatim duplicates of earlier transactions / coinbases (equal txids, also side by side in one block: equal
    // sibling nodes in the merkle tree) - the root of such a list is still 'the Bitcoin merkle root of the txids'
    cfg.dup_coinbase = !faults;
    cfg
}

pub fn strategy(tier: Tier, faults: bool) -> BS<Case> {
    let fault = if faults {
        (prop_oneof![4 => Just(FaultKind::TxBit), 3 => Just(FaultKind::MerkleBit), 3 => Just(FaultKind::PrevBit), 2 => Just(FaultKind::ForeignBlock), 2 => Just(FaultKind::Relinked), 2 => Just(FaultKind::PrevToSibling), 1 => Just(FaultKind::GenesisHeaderBit), 1 => Just(FaultKind::WrongGenesis), 1 => Just(FaultKind::SyntheticGenesis), 1 => Just(FaultKind::GenesisCopy)], any::<u16>(), any::<u32>()).prop_map(|(kind, h, bit)| Some(Fault { kind, h, bit, more: 0 })).boxed()
    } else {
        Just(None).boxed()
    };
    (gen::chain(&chain_cfg(tier, faults)), any::<u16>(), prop_oneof![2 => Just(None), 1 => any::<u16>().prop_map(Some)], fault, proptest::sample::select(vec![Callback::CsvDump, Callback::CsvDump, Callback::UnspentCsvDump, Callback::Balances, Callback::SimpleStats]))
        .prop_map(move |(mut chain, start, end, fault, cb)| {
            if !faults && start & 3 == 0 {
                // every duplicate repeats the transaction right before it
                for t in chain.blocks.iter_mut().flat_map(|b| b.txs.iter_mut()) {
                    if t.dup_of.is_some() {
                        t.dup_of = Some(u16::MAX);
                    }
                }
            }
            if faults {
                // keep blocks free of AuxPoW sections: their bytes are not covered by any txid
                if let Some(th) = chain.coin.auxpow_threshold() {
                    for b in chain.blocks.iter_mut() {
                        b.version %= th;
                    }
                }
            }
            Case { chain, start, end, fault, cb, pause: false }
        })
        .boxed()
}

fn flip(bytes: &mut [u8], lo: usize, hi: usize, sel: u32) -> (usize, u8) {
    let nbits = (hi - lo) * 8;
    let k = ((sel as u64 * nbits as u64) >> 32) as usize;
    bytes[lo + k / 8] ^= 1 << (k % 8);
    (lo + k / 8, (k % 8) as u8)
}

pub fn check(c: &Case) -> Verdict {
    let mut spec = c.chain.clone();
    let coin = spec.coin;
    let has_genesis = genesis_block(coin).is_some();
    let kind = c.fault.as_ref().map(|f| f.kind);
    if kind == Some(FaultKind::SyntheticGenesis) {
        spec.real_genesis = false;
    }
    let mut built = spec.build();
    if kind == Some(FaultKind::WrongGenesis) {
        // chain that starts at another coin's real genesis block
        let other = ALL_COINS.iter().cycle().skip(coin as usize + 1).find(|o| **o != coin && genesis_block(**o).is_some()).cloned().unwrap();
        let mut s2 = spec.clone();
        s2.coin = other;
        let mut b2 = s2.build();
        // keep the selected coin's parameters (magic, AuxPoW rules) for everything else
        b2.coin = coin;
        if coin.auxpow_threshold().is_some() || other.auxpow_threshold().is_some() {
            // the foreign chain's blocks must not carry sections the selected coin would not expect
            for (_, b) in b2.blocks.iter_mut() {
                b.auxpow = None;
            }
        }
        built = b2;
    }
    let n = built.blocks.len();
    let tip = built.tip();
    // range: start in 0..=tip (>=1 when height 0 cannot pass), end optional
    let min_start = if !has_genesis && !matches!(kind, Some(FaultKind::WrongGenesis) | Some(FaultKind::SyntheticGenesis)) { 1 } else { 0 };
    if tip < min_start {
        return Verdict::Pass(Pass::default());
    }
    let s = min_start + ((c.start as u64 * (tip - min_start + 1)) >> 16);
    let end = c.end.map(|e| s + 1 + ((e as u64 * (tip + 2 - s)) >> 16));
    let e = end.map(|x| x.min(tip)).unwrap_or(tip);
    let mut plan = canonical_plan(coin, &built.blocks);
    // apply the fault to the stored bytes (the index keeps the original hashes)
    let mut fault_h: Option<u64> = None;
    let mut desc = String::from("none");
    if let Some(f) = &c.fault {
        let hi = match f.kind {
            FaultKind::WrongGenesis | FaultKind::SyntheticGenesis | FaultKind::GenesisHeaderBit => 0usize,
            FaultKind::PrevBit | FaultKind::ForeignBlock | FaultKind::GenesisCopy => {
                if n < 2 {
                    return Verdict::Pass(Pass::default());
                }
                1 + mono(f.h, n - 1)
            }
            FaultKind::Relinked | FaultKind::PrevToSibling => {
                if n < 3 {
                    return Verdict::Pass(Pass::default());
                }
                2 + mono(f.h, n - 2)
            }
            _ => mono(f.h, n),
        };
        fault_h = Some(built.blocks[hi].0);
        let mut relinked_prev: Option<[u8; 32]> = None;
        if f.kind == FaultKind::Relinked {
            if let Seg::Blk { bytes, .. } = &mut plan.files[0].segs[hi - 1] {
                bytes[76] ^= 0x01 | (f.bit as u8 & 0xfe);
                relinked_prev = Some(vpmodel::hashes::sha256d(&bytes[..80]));
            }
        }
        if f.kind == FaultKind::PrevToSibling {
            let sib = crate::c04::competitor(&built.blocks[hi - 1].1, built.blocks[hi - 1].1.prev, false, f.bit);
            if sib.hash() >= built.blocks[hi - 1].1.hash() {
                return Verdict::Pass(Pass::default()); // no earlier-sorting hash found: the open finding D7 would interfere
            }
            plan.recs.push(vpmodel::datadir::rec_for(&sib, built.blocks[hi - 1].0, vpmodel::datadir::VALID_TRANSACTIONS | vpmodel::datadir::HAVE_DATA));
            let rec = Some(plan.recs.len() - 1);
            plan.files[0].segs.push(Seg::Blk { bytes: sib.ser(), rec, magic: coin.magic() });
            relinked_prev = Some(sib.hash());
        }
        if let Seg::Blk { bytes, .. } = &mut plan.files[0].segs[hi] {
            match f.kind {
                FaultKind::MerkleBit => {
                    let (p, b) = flip(bytes, 36, 68, f.bit);
                    desc = format!("merkle-field byte {} bit {} (and the same in {} further blocks)", p, b, f.more);
                }
                FaultKind::PrevBit => {
                    let (p, b) = flip(bytes, 4, 36, f.bit);
                    desc = format!("prev-field byte {} bit {}", p, b);
                }
                FaultKind::TxBit => {
                    let len = bytes.len();
                    let (p, b) = flip(bytes, 80, len, f.bit);
                    desc = format!("tx-region byte {} of {} bit {}", p, len, b);
                }
                FaultKind::ForeignBlock => {
                    // a self-consistent block of another chain (different prev, own merkle root)
                    let mut fb = built.blocks[hi].1.clone();
                    fb.prev = vpmodel::hashes::sha256(&fb.prev);
                    fb.nonce ^= 0x00a5_0000;
                    *bytes = fb.ser();
                    desc = "block replaced by a foreign, self-consistent block".into();
                }
                FaultKind::GenesisCopy => match genesis_block(coin) {
                    Some(g) => {
                        *bytes = g.ser();
                        desc = "block replaced by a copy of the coin's genesis block".into();
                    }
                    None => return Verdict::Pass(Pass::default()),
                },
                FaultKind::Relinked => {
                    if let Some(p) = relinked_prev {
                        bytes[4..36].copy_from_slice(&p);
                    }
                    desc = "stored predecessor re-mined (other nonce) and this block's prev field pointed at it".into();
                }
                FaultKind::PrevToSibling => {
                    if let Some(p) = relinked_prev {
                        bytes[4..36].copy_from_slice(&p);
                    }
                    desc = "prev field names a stale sibling (with data, in the index) of the preceding block".into();
                }
                FaultKind::GenesisHeaderBit => {
                    // 16 bytes: version (0..4) and time / bits / nonce (68..80)
                    let k = ((f.bit as u64 * 128) >> 32) as usize;
                    let byte = if k / 8 < 4 { k / 8 } else { 64 + k / 8 };
                    bytes[byte] ^= 1 << (k % 8);
                    desc = format!("header byte {} bit {} of the stored block 0 (not merkle, not prev)", byte, k % 8);
                }
                FaultKind::WrongGenesis => desc = "another coin's genesis block at height 0".into(),
                FaultKind::SyntheticGenesis => desc = "synthetic block at height 0".into(),
            }
        }
    }
    if let Some(f) = &c.fault {
        if f.kind == FaultKind::MerkleBit && f.more > 0 {
            let first = mono(f.h, n);
            for hi in first + 1..(first + 1 + f.more as usize).min(n) {
                if let Seg::Blk { bytes, .. } = &mut plan.files[0].segs[hi] {
                    flip(bytes, 36, 68, f.bit);
                }
            }
        }
    }
    let w = infra!(World::create("c09", &mut plan));
    let mut o = RunOpts::new(coin, c.cb);
    o.start = if s > 0 { Some(s) } else { None };
    o.end = end;
    o.verify = true;
    if c.pause {
        o.pause_on = Some(("Processing blocks starting from height".to_string(), 10.5));
    }
    let out = infra!(w.run(&o));
    if let Some(v) = timed_out_is_infra(&out) {
        return v;
    }
    let in_range = fault_h.map(|h| h >= s && h <= e).unwrap_or(false);
    if kind == Some(FaultKind::Relinked) && !in_range {
        // the re-mined predecessor may lie inside the range while the re-pointed block does not: that run processes a
        // consistent chain whose block h-1 simply is another block than the model's - nothing to decide here
        return Verdict::Pass(Pass::default());
    }
    let ntx_max = built.blocks.iter().filter(|(h, _)| *h >= s && *h <= e).map(|(_, b)| b.txs.len()).max().unwrap_or(0);
    let shape = match ntx_max { 0..=1 => "1", 2 => "2", 3..=8 => "3-8", x if x.is_power_of_two() => "2^k", x if (x + 1).is_power_of_two() || (x - 1).is_power_of_two() => "2^k+-1", _ => "other" };
    let mut classes = vec![format!("coin={}", coin.cli()), format!("shape={}", shape), format!("start={}", if s == 0 { "0" } else { ">0" })];
    let nontrivial;
    if in_range {
        let h = fault_h.unwrap();
        if out.ok() {
            return Verdict::Fail(format!("--verify accepted a chain with a fault at processed height {} ({}); range {}..={}: {}", h, desc, s, e, out.describe()));
        }
        let finals = out.final_files();
        if !finals.is_empty() {
            return Verdict::Fail(format!("failed --verify run (fault at height {}: {}) left final-named files {:?}", h, desc, finals));
        }
        if let Some(eh) = error_height(&out.stderr_text()) {
            if eh != h {
                return Verdict::Fail(format!("fault at height {} ({}) but the run reports 'Error at height {}' (range {}..={})", h, desc, eh, s, e));
            }
        }
        classes.push(format!("fault={:?}", kind.unwrap()));
        classes.push(format!("fault-at={}", if h == s && s > 0 { "start>0" } else if h > s { "after-start" } else { "height-0" }));
        nontrivial = h > s || (h == s && s > 0);
    } else {
        // consistent on the processed range: must succeed with the output of the plain run
        let range = range_of(&built.blocks, s, e);
        if let Err(m) = check_callback(c.cb, coin, &range, &out, s) {
            return Verdict::Fail(format!("--verify rejected or changed the result of a chain that is consistent on the processed range {}..={} (fault outside: {:?} {}): {}", s, e, fault_h, desc, m));
        }
        let mut o2 = o.clone();
        o2.verify = false;
        let plain = infra!(w.run(&o2));
        if plain.files != out.files && c.cb == Callback::CsvDump {
            return Verdict::Fail("output with --verify differs from output without".into());
        }
        classes.push(if c.fault.is_some() { "fault-outside-range".into() } else { "consistent".into() });
        nontrivial = ntx_max >= 3;
    }
    let sample = serde_json::json!({"coin": coin.cli(), "tip": tip, "range": format!("{}..={}", s, e), "fault": desc, "fault_height": fault_h, "max_txs_in_block": ntx_max, "callback": c.cb.cli()});
    Verdict::Pass(Pass { nontrivial, key: vpmodel::hashes::fnv64(format!("{}|{:?}|{}|{}|{}|{}", shape, kind, c.fault.as_ref().map(|f| f.bit >> 28).unwrap_or(0), coin.cli(), s == 0, in_range).as_bytes()).wrapping_add(key_of(c) & 0xff), classes, known: vec![], sub_evals: 1, sample: Some(sample), extra_keys: vec![] })
}

/// thorough tier: every single-bit flip of the merkle and prev fields and of all tx bytes of a
/// small block (exhaustive over bit positions for that block)
fn all_flips(seed: u64, ntx: usize) -> Vec<Case> {
    use proptest::strategy::ValueTree;
    use proptest::test_runner::{Config, RngAlgorithm, TestRng, TestRunner};
    let mut s = [7u8; 32];
    s[..8].copy_from_slice(&seed.to_le_bytes());
    let mut runner = TestRunner::new_with_rng(Config::default(), TestRng::from_seed(RngAlgorithm::ChaCha, &s));
    let mut cfg = chain_cfg(Tier::Quick, true);
    cfg.coin = Just(Coin::Bitcoin).boxed();
    cfg.nblocks = Just(2usize).boxed();
    cfg.ntx = Just(ntx).boxed();
    let chain = gen::chain(&cfg).new_tree(&mut runner).unwrap().current();
    let built = chain.build();
    let mut v = Vec::new();
    // the LAST block of the built chain (it ends the blk file): the h selectors must map to it
    let n = built.blocks.len();
    let target = n - 1;
    let len = built.blocks[target].1.ser().len();
    let sel = |idx: usize, of: usize| (((idx as u64) * 65536 + of as u64 - 1) / of as u64) as u16;
    let (h_any, h_prev) = (sel(target, n), sel(target - 1, n - 1));
    assert!(mono(h_any, n) == target && 1 + mono(h_prev, n - 1) == target);
    let mk = |kind, nbits: usize, k: usize| Case { chain: chain.clone(), start: 0, end: None, fault: Some(Fault { kind, h: match kind { FaultKind::PrevBit => h_prev, _ => h_any }, bit: (((k as u64) << 32) / nbits as u64 + 1).min(u32::MAX as u64) as u32, more: 0 }), cb: Callback::CsvDump, pause: false };
    for k in 0..256 {
        v.push(mk(FaultKind::MerkleBit, 256, k));
        v.push(mk(FaultKind::PrevBit, 256, k));
    }
    let nb = (len - 80) * 8;
    for k in 0..nb {
        v.push(mk(FaultKind::TxBit, nb, k));
    }
    v
}

fn run(eng: &Engine, a: &Args) {
    let (nc, nf) = if a.tier == Tier::Quick { (300, 600) } else { (3000, 6000) };
    let tier = a.tier;
    eng.explore("complete", scaled(nc, a), move || strategy(tier, false), check);
    eng.explore("faults", scaled(nf, a), move || strategy(tier, true), check);
    // every bit of the LAST block of a two-block chain (a flipped length or count there makes the parser run
    // into the end of the blk file): a coinbase-only block in the quick tier, a three-transaction block in the thorough tier
    // a block with 65 537 transactions (a merkle tree of depth 17, transaction count in the five-byte CompactSize form)
    // between two small blocks, verified from height 1 and dumped by two callbacks
    let scripts: Vec<Vec<u8>> = (0..65_540usize).map(|i| vec![0x51 + (i % 16) as u8, 0x75, (i & 0x7f) as u8 | 0x80]).collect();
    let mut wide = vpmodel::spec::chain_from_scripts(Coin::Bitcoin, &scripts, &[3, 900, 0], 1, 65_536, 0, 1_400_000_000);
    wide.real_genesis = true;
    let mut deep = Vec::new();
    for (cb, start) in [(Callback::CsvDump, 0u16), (Callback::SimpleStats, 40_000u16)] {
        deep.push(Case { chain: wide.clone(), start, end: None, fault: None, cb, pause: false });
    }
    eng.enumerate("merkle-tree-of-depth-17", deep, check);
    // many bad blocks in one run: the merkle field of N consecutive blocks of a 600-block chain is damaged, N = 2, 255,
    // 256, 257, 512 - however the tool counts or reports them, the run must fail and leave nothing
    let scripts: Vec<Vec<u8>> = (0..600usize).map(|i| { let mut s = vec![0x76, 0xa9, 0x14]; s.extend([(i & 0xff) as u8, (i >> 8) as u8].iter().cycle().take(20)); s.extend([0x88, 0xac]); s }).collect();
    let mut bad = vpmodel::spec::chain_from_scripts(Coin::Bitcoin, &scripts, &[1000, 2500], 1, 1, 0, 1_400_000_000);
    bad.real_genesis = true;
    let many: Vec<Case> = [2u16, 255, 256, 257, 512].iter().map(|n| Case { chain: bad.clone(), start: 0, end: None, fault: Some(Fault { kind: FaultKind::MerkleBit, h: 700, bit: 0x1234_5678, more: n - 1 }), cb: Callback::CsvDump, pause: false }).collect();
    eng.enumerate("many-faulted-blocks", many, check);
    // a verified run that lasts longer than the driver's 10-second status interval (5000 blocks, the tool stopped for
    // 10.5 s after the first one): every later block is still checked against the index record before it
    let scripts: Vec<Vec<u8>> = (0..5000usize).map(|i| { let mut s = vec![0x76, 0xa9, 0x14]; s.extend([(i & 0xff) as u8, (i >> 8) as u8].iter().cycle().take(20)); s.extend([0x88, 0xac]); s }).collect();
    let mut long = vpmodel::spec::chain_from_scripts(Coin::Litecoin, &scripts, &[1000, 2500], 1, 1, 0, 1_400_000_000);
    long.real_genesis = true;
    eng.enumerate("slow-verified-run", vec![Case { chain: long.clone(), start: 0, end: None, fault: None, cb: Callback::CsvDump, pause: true }, Case { chain: long, start: 3000, end: None, fault: None, cb: Callback::Balances, pause: true }], check);
    eng.enumerate("every-bit-of-one-block", all_flips(a.seed, if a.tier == Tier::Thorough { 2 } else { 0 }), check);
}

fn replay(part: &str, case: serde_json::Value) -> Option<Verdict> {
    match part {
        "complete" | "faults" | "every-bit-of-one-block" | "merkle-tree-of-depth-17" | "slow-verified-run" | "many-faulted-blocks" => Some(check(&serde_json::from_value(case).ok()?)),
        _ => None,
    }
}
