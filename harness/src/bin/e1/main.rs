//! E1: black-box differential engine. Runs the binary built from /repo's working tree on
//! generated data directories and compares with the reference model / metamorphic partners.
mod common;
mod c01;
mod c02;
mod c03;
mod c04;
mod c07;
mod c09;
mod c10;
mod c11;
mod c12;
mod c13;
mod c14;
mod c15;
mod c17;
mod scripts;

use std::path::PathBuf;
use vpmodel::engine::{Engine, RunCfg};
use vpmodel::gen::Tier;

pub struct Args {
    pub tier: Tier,
    pub seed: u64,
    pub out: PathBuf,
    pub scale: f64,
}

fn usage() -> ! {
    eprintln!("usage: vp-e1 check <ID> [--tier quick|thorough] [--seed N] [--out FILE] [--scale F]\n       vp-e1 replay <FILE>");
    std::process::exit(2);
}

pub struct PropDef {
    pub id: &'static str,
    pub level: &'static str,
    pub rule: &'static str,
    pub assumptions: &'static [&'static str],
    pub run: fn(&Engine, &Args),
    pub replay: fn(&str, serde_json::Value) -> Option<vpmodel::engine::Verdict>,
}

fn props() -> Vec<PropDef> {
    vec![c01::DEF, c02::DEF, c03::DEF, c04::DEF, c07::C07, c07::C08, c09::DEF, c10::DEF, c11::DEF, c12::DEF, c13::DEF, c14::DEF, c15::DEF, c17::DEF, scripts::C05, scripts::C06, scripts::C16]
}

fn main() {
    let argv: Vec<String> = std::env::args().collect();
    if argv.len() < 3 {
        usage();
    }
    let r = std::panic::catch_unwind(|| vpmodel::self_test());
    if r.is_err() {
        println!("INFRA model self test failed");
        std::process::exit(2);
    }
    if !vpmodel::run::tool_bin().exists() {
        println!("INFRA tool binary {} missing", vpmodel::run::tool_bin().display());
        std::process::exit(2);
    }
    vpmodel::run::cleanup_stale_roots();
    match argv[1].as_str() {
        "check" => {
            let id = argv[2].clone();
            let mut args = Args { tier: Tier::Quick, seed: 0, out: PathBuf::from(format!("/verif/.cache/out/{}.e1.json", id)), scale: 1.0 };
            let mut i = 3;
            while i < argv.len() {
                match argv[i].as_str() {
                    "--tier" => {
                        args.tier = if argv[i + 1] == "thorough" { Tier::Thorough } else { Tier::Quick };
                        i += 1
                    }
                    "--seed" => {
                        args.seed = argv[i + 1].parse().unwrap_or(0);
                        i += 1
                    }
                    "--out" => {
                        args.out = PathBuf::from(&argv[i + 1]);
                        i += 1
                    }
                    "--scale" => {
                        args.scale = argv[i + 1].parse().unwrap_or(1.0);
                        i += 1
                    }
                    _ => usage(),
                }
                i += 1;
            }
            let def = match props().into_iter().find(|p| p.id == id) {
                Some(d) => d,
                None => {
                    println!("INFRA unknown property {}", id);
                    std::process::exit(2);
                }
            };
            let shards = std::env::var("VP_SHARDS").ok().and_then(|s| s.parse().ok()).unwrap_or(16);
            let replay_dir = PathBuf::from(std::env::var("VP_REPLAY_DIR").unwrap_or_else(|_| "/verif/replays".into()));
            let eng = Engine::new(RunCfg { property: id.clone(), engine: "E1".into(), tier: args.tier, seed: args.seed, shards, replay_dir });
            (def.run)(&eng, &args);
            let mut notes: Vec<&str> = def.assumptions.to_vec();
            if id != "C10" {
                notes.push(common::AUTO_VERBOSITY_NOTE);
            }
            let code = eng.finish(&args.out, def.rule, &notes, def.level);
            vpmodel::run::cleanup_root();
            std::process::exit(code);
        }
        "replay" => {
            let text = std::fs::read_to_string(&argv[2]).expect("read replay file");
            let doc: serde_json::Value = serde_json::from_str(&text).expect("replay file is JSON");
            let id = doc["property"].as_str().unwrap_or("").to_string();
            let part = doc["part"].as_str().unwrap_or("").to_string();
            let def = props().into_iter().find(|p| p.id == id).unwrap_or_else(|| {
                println!("INFRA unknown property {}", id);
                std::process::exit(2)
            });
            let v = (def.replay)(&part, doc["case"].clone());
            vpmodel::run::cleanup_root();
            match v {
                Some(vpmodel::engine::Verdict::Pass(p)) => {
                    for k in &p.known {
                        println!("KNOWN-FINDING: property={} {}", id, k);
                    }
                    println!("replay passes: property={} part={}", id, part);
                    std::process::exit(0)
                }
                Some(vpmodel::engine::Verdict::Fail(m)) => {
                    println!("VIOLATION property={} replay={}", id, argv[2]);
                    println!("  reason: {}", m);
                    std::process::exit(1)
                }
                Some(vpmodel::engine::Verdict::Infra(m)) => {
                    println!("INFRA {}", m);
                    std::process::exit(2)
                }
                None => {
                    println!("INFRA unknown part {} of {}", part, id);
                    std::process::exit(2)
                }
            }
        }
        _ => usage(),
    }
}

pub fn scaled(n: u32, a: &Args) -> u32 {
    ((n as f64) * a.scale).ceil().max(1.0) as u32
}
