//! C17 - open blk files stay bounded by the files overlapping the current height.
use crate::common::*;
use crate::{infra, scaled, Args, PropDef};
use proptest::prelude::*;
use serde::{Deserialize, Serialize};
use std::collections::{BTreeMap, HashMap};
use vpmodel::chain::Coin;
use vpmodel::engine::{Engine, Pass, Verdict};
use vpmodel::gen::{Tier, BS};
use vpmodel::layout::{FileSlot, Gap, LayoutSpec};
use vpmodel::run::{Callback, RunOpts};
use vpmodel::spec::{chain_from_scripts, ChainSpec};

pub const DEF: PropDef = PropDef {
    id: "C17",
    level: "exploration",
    rule: "chains of 40..400 one-transaction blocks spread over 1..300 blk files in generated ways: disjoint height spans, overlapping spans (a window of k files active at a time), two or three files interleaved in height, random assignment; optional --start/--end inside a file; 40% of the directories are XOR-obfuscated; runs at verbosity 0, -v, -vv and -vvv (logging must not open or keep files). Oracle 1 (descriptor limit): N0 := smallest RLIMIT_NOFILE under which the single-file layout of the same chain and callback succeeds (binary search); the multi-file layout must succeed under N0 + (w-1), w = the model's maximum, over processed heights h, of the number of files that were touched at or before h and still hold a block of height >= h, and produce the same output. Oracle 2 (trace): under strace the number of simultaneously open blk*.dat descriptors never exceeds w, and every block is still delivered after a file was closed and reopened. Non-trivial = more blk files than the descriptor limit N0+(w-1) under which the run had to succeed, with w <= 3; distinct by layout hash. 35 % of the layouts end every blk file that does not hold the tip with a stale sibling (data-bearing index record that loses its height) of the next height; such a block counts as content of its file in the bound.",
    assumptions: &["the descriptors the tool needs besides blk files (LevelDB, dump files, stdio) do not depend on the blk layout: calibrated per case on the single-file layout"],
    run,
    replay,
};

#[derive(Clone, Debug, Serialize, Deserialize)]
pub enum Shape {
    /// file k holds the k-th span of consecutive heights
    Disjoint,
    /// spans overlap: block i goes to file (i / span + (i % window)) - a sliding window of files
    Overlap(u8),
    /// blocks alternate between `n` files inside each group of files
    Interleave(u8),
    Random(Vec<u16>),
}

#[derive(Clone, Debug, Serialize, Deserialize)]
pub struct Case {
    pub nblocks: u16,
    pub nfiles: u16,
    pub shape: Shape,
    pub cb: Callback,
    pub start: Option<u16>,
    pub end: Option<u16>,
    pub reverse_order: bool,
    /// the directory is XOR-obfuscated (a reopened file must still be decoded)
    #[serde(default)]
    pub xor: bool,
    /// -v / -vv / -vvv: logging must not change which files are open
    #[serde(default)]
    pub verbose: u8,
    /// every blk file that does not hold the tip ends with a stale sibling (status VALID_TRANSACTIONS|HAVE_DATA, hash sorting
    /// before the active block's) of the block that follows the file's highest active block - a lost race at the file boundary
    #[serde(default)]
    pub stale_tails: bool,
    /// run with --verify from height >= 1 (verification must not keep or reopen files either)
    #[serde(default)]
    pub verify: bool,
}

pub fn strategy(tier: Tier) -> BS<Case> {
    let maxb = if tier == Tier::Quick { 260u16 } else { 600 };
    (40u16..maxb, prop_oneof![1 => 1u16..4, 6 => 30u16..300], prop_oneof![4 => Just(Shape::Disjoint), 3 => (2u8..4).prop_map(Shape::Overlap), 3 => (2u8..4).prop_map(Shape::Interleave), 1 => proptest::collection::vec(any::<u16>(), 4..40).prop_map(Shape::Random)], proptest::sample::select(vec![Callback::CsvDump, Callback::SimpleStats, Callback::UnspentCsvDump]), proptest::option::weighted(0.3, any::<u16>()), proptest::option::weighted(0.3, any::<u16>()), any::<bool>(), proptest::bool::weighted(0.4), (prop_oneof![5 => Just(0u8), 1 => Just(1u8), 2 => Just(2u8), 1 => Just(3u8)], proptest::bool::weighted(0.35), proptest::bool::weighted(0.3)).prop_map(|(v, st, ver)| v | if st { 4 } else { 0 } | if ver { 8 } else { 0 }))
        .prop_map(|(nblocks, nfiles, shape, cb, start, end, reverse_order, xor, verbose)| Case { nblocks, nfiles: nfiles.min(nblocks), shape, cb, start, end, reverse_order, xor, verbose: verbose & 3, stale_tails: verbose & 4 != 0, verify: verbose & 8 != 0 })
        .boxed()
}

fn file_of(c: &Case, i: usize) -> usize {
    let nb = c.nblocks as usize;
    let nf = (c.nfiles as usize).max(1);
    let span = (nb + nf - 1) / nf;
    match &c.shape {
        Shape::Disjoint => (i / span).min(nf - 1),
        Shape::Overlap(wd) => ((i / span) + (i % (*wd as usize))).min(nf - 1),
        Shape::Interleave(k) => {
            let k = *k as usize;
            let group = i / (span * k);
            (group * k + (i % k)).min(nf - 1)
        }
        Shape::Random(v) => (v[i % v.len()] as usize * nf) >> 16,
    }
}

fn chain(c: &Case) -> ChainSpec {
    let scripts: Vec<Vec<u8>> = (0..c.nblocks as usize).map(|i| { let mut s = vec![0x76, 0xa9, 0x14]; s.extend([(i & 0xff) as u8; 20]); s.extend([0x88, 0xac]); s }).collect();
    chain_from_scripts(Coin::Bitcoin, &scripts, &[1000], 1, 1, 0, 1_400_000_000)
}

fn layout(c: &Case) -> LayoutSpec {
    let nf = (c.nfiles as usize).max(1);
    let nb = c.nblocks as usize;
    LayoutSpec {
        files: (0..nf).map(|k| FileSlot { number: k as u64, pad: 5 }).collect(),
        assign: (0..nb).map(|i| { let f = file_of(c, i); ((f * 65536 + nf - 1) / nf) as u16 }).collect(),
        order: if c.reverse_order { (0..nb).map(|i| (nb - i) as u16).collect() } else { vec![0] },
        gaps: vec![Gap::None],
        lead: vec![Gap::None],
        xor: if c.xor { Some(vec![0x9d, 0x01, 0xfe, 0x33, 0x00, 0x7a, 0xc4, 0x5b]) } else { None },
        extras: Default::default(),
        ldb_small: false,
        ldb_reopens: 0,
        ldb_compact: false,
        ldb_history: false,
        xor_link: 0,
    }
}

/// the model's bound: max over processed heights h of #files touched at or before h (within the
/// range) that still hold a block of height >= h
fn width(files: &[usize], s: usize, e: usize, stale: &[(usize, usize)]) -> usize {
    let mut maxh: HashMap<usize, usize> = HashMap::new();
    for (i, f) in files.iter().enumerate() {
        maxh.insert(*f, i);
    }
    // a stale block counts as content of its file (the lenient reading of 'still holds a block of a height yet to come')
    for (f, i) in stale {
        let m = maxh.entry(*f).or_insert(*i);
        *m = (*m).max(*i);
    }
    let mut touched: BTreeMap<usize, ()> = BTreeMap::new();
    let mut w = 0;
    for h in s..=e {
        touched.insert(files[h], ());
        let open = touched.keys().filter(|f| maxh[*f] >= h).count();
        w = w.max(open);
    }
    w
}

fn run_limit(w: &World, o: &RunOpts, limit: u64) -> Result<vpmodel::run::RunOut, String> {
    let mut o2 = o.clone();
    o2.nofile = Some(limit);
    w.run(&o2)
}

pub fn check(c: &Case) -> Verdict {
    let spec = chain(c);
    let built = spec.build();
    let nb = built.blocks.len();
    let tip = built.tip();
    let s = c.start.map(|x| (x as u64 * nb as u64) >> 16).unwrap_or(0);
    // --verify: block 0 of these chains is not a genesis block, so a verified run starts at height 1 or above; with
    // stale siblings in the index the open finding D7 could make a sibling the record of start-1, so not combined
    let verify = c.verify && !c.stale_tails && tip >= 2;
    let s = if verify { s.max(1) } else { s };
    let end = c.end.map(|x| s + 1 + ((x as u64 * (tip + 1 - s)) >> 16));
    let e = end.map(|x| x.min(tip)).unwrap_or(tip);
    let mut o = RunOpts::new(built.coin, c.cb);
    o.start = if s > 0 { Some(s) } else { None };
    o.end = end;
    o.verbose = c.verbose;
    o.verify = verify;
    // 1. calibrate on the single-file layout
    let mut single = LayoutSpec::canonical();
    single.xor = layout(c).xor;
    let mut plan1 = single.to_plan(&built);
    let w1 = infra!(World::create("c17a", &mut plan1));
    let mut runs = 0;
    let (mut lo, mut hi) = (3u64, 64u64); // lo fails, hi succeeds
    let top = infra!(run_limit(&w1, &o, hi));
    runs += 1;
    if !top.ok() {
        return Verdict::Infra(format!("single-file layout does not even run with 64 descriptors: {}", top.describe()));
    }
    while hi - lo > 1 {
        let mid = (lo + hi) / 2;
        let r = infra!(run_limit(&w1, &o, mid));
        runs += 1;
        if r.ok() { hi = mid } else { lo = mid }
    }
    let n0 = hi;
    let reference = infra!(run_limit(&w1, &o, n0));
    if !reference.ok() {
        return Verdict::Infra("calibration is not stable".into());
    }
    drop(w1);
    // 2. multi-file layout under N0 + (w - 1)
    let l = layout(c);
    let files: Vec<usize> = (0..nb).map(|i| l.file_of(i)).collect();
    let mut plan2 = l.to_plan(&built);
    let mut stale: Vec<(usize, usize)> = Vec::new();
    if c.stale_tails {
        let mut last: BTreeMap<usize, usize> = BTreeMap::new();
        for (i, f) in files.iter().enumerate() {
            last.insert(*f, i);
        }
        for (f, i) in last {
            if i + 1 < nb {
                let comp = crate::c04::competitor(&built.blocks[i + 1].1, built.blocks[i].1.hash(), false, f as u32);
                if comp.hash() >= built.blocks[i + 1].1.hash() {
                    continue; // no earlier-sorting hash found: the open finding D7 would interfere
                }
                plan2.recs.push(vpmodel::datadir::rec_for(&comp, built.blocks[i + 1].0, vpmodel::datadir::VALID_TRANSACTIONS | vpmodel::datadir::HAVE_DATA));
                let rec = Some(plan2.recs.len() - 1);
                let name = vpmodel::datadir::blk_name(l.files[f].number, l.files[f].pad);
                if let Some(pf) = plan2.files.iter_mut().find(|pf| pf.name == name) {
                    pf.segs.push(vpmodel::datadir::Seg::Blk { bytes: comp.ser(), rec, magic: built.coin.magic() });
                    stale.push((f, i + 1));
                } else {
                    plan2.recs.pop();
                }
            }
        }
    }
    let wd = width(&files, s as usize, e as usize, &stale);
    let w2 = infra!(World::create("c17b", &mut plan2));
    let limit = n0 + wd as u64 - 1;
    let out = infra!(run_limit(&w2, &o, limit));
    runs += 1;
    if let Some(v) = timed_out_is_infra(&out) {
        return v;
    }
    let nfiles_used = l.files_used(nb);
    if !out.ok() {
        return Verdict::Fail(format!("layout with {} blk files ({:?}, at most {} files hold a block of a height yet to come at any time) fails under RLIMIT_NOFILE={} although the single-file layout needs only {}: {}", nfiles_used, c.shape, wd, limit, n0, out.describe()));
    }
    if canon(c.cb, &out) != canon(c.cb, &reference) {
        return Verdict::Fail(format!("layout with {} blk files gives a different result than the single-file layout", nfiles_used));
    }
    // 3. trace oracle: simultaneously open blk files never exceed w
    let tracefile = w2.scratch.path.join("trace.log");
    let mut o3 = o.clone();
    o3.trace = Some(("openat,close".into(), tracefile.clone()));
    let tr = infra!(w2.run(&o3));
    runs += 1;
    if !tr.ok() {
        return Verdict::Infra(format!("traced run failed: {}", tr.describe()));
    }
    let text = std::fs::read_to_string(&tracefile).unwrap_or_default();
    let mut open_blk: HashMap<String, String> = HashMap::new(); // fd -> path
    let mut max_open = 0;
    let mut opens = 0;
    // strace -f splits a call that is overtaken by another thread's into "... <unfinished ...>" and
    // "<... openat resumed>) = 7" lines: both halves are honoured (an unfinished close still releases its descriptor)
    let mut pending: HashMap<String, String> = HashMap::new(); // pid -> path of an unfinished openat
    for line in text.lines() {
        let mut it = line.splitn(2, ' ');
        let pid = it.next().unwrap_or("").to_string();
        let l = it.next().unwrap_or("").trim_start();
        let fd_of = |l: &str| -> Option<String> { l.rsplit("= ").next().map(|x| x.trim().split(' ').next().unwrap_or("").to_string()).filter(|x| x.parse::<i64>().map(|v| v >= 0).unwrap_or(false)) };
        if l.starts_with("openat(") && l.contains("/blk") && l.contains(".dat\"") {
            let path = l.split('"').nth(1).unwrap_or("").to_string();
            if l.contains("<unfinished") {
                pending.insert(pid, path);
            } else if let Some(fd) = fd_of(l) {
                open_blk.insert(fd, path);
                opens += 1;
                max_open = max_open.max(open_blk.len());
            }
        } else if l.starts_with("<... openat resumed>") {
            if let Some(path) = pending.remove(&pid) {
                if let Some(fd) = fd_of(l) {
                    open_blk.insert(fd, path);
                    opens += 1;
                    max_open = max_open.max(open_blk.len());
                }
            }
        } else if l.starts_with("close(") {
            let fd: String = l[6..].chars().take_while(|c| c.is_ascii_digit()).collect();
            open_blk.remove(&fd);
        }
    }
    if opens == 0 {
        return Verdict::Infra("trace shows no blk file being opened".into());
    }
    if max_open > wd {
        return Verdict::Fail(format!("trace: {} blk files open at the same time, but at most {} files hold a block of a height yet to come ({} files, {:?})", max_open, wd, nfiles_used, c.shape));
    }
    let classes = vec![format!("shape={}", match &c.shape { Shape::Disjoint => "disjoint", Shape::Overlap(_) => "overlap", Shape::Interleave(_) => "interleave", Shape::Random(_) => "random" }), format!("files={}", match nfiles_used { 0..=3 => "1-3", 4..=49 => "4-49", 50..=149 => "50-149", _ => "150+" }), format!("w={}", wd.min(5)), format!("cb={}", c.cb.cli()), format!("ranged={}", c.start.is_some() || c.end.is_some()), format!("reopen={}", opens > nfiles_used), format!("xor={}", c.xor)];
    let sample = serde_json::json!({"blocks": nb, "files": nfiles_used, "shape": format!("{:?}", c.shape).chars().take(60).collect::<String>(), "range": format!("{}..={}", s, e), "N0": n0, "w": wd, "limit": limit, "max_open_blk_in_trace": max_open, "opens_in_trace": opens, "callback": c.cb.cli()});
    Verdict::Pass(Pass { nontrivial: nfiles_used as u64 > limit && wd <= 3, key: key_of(c), classes, known: vec![], sub_evals: runs, sample: Some(sample), extra_keys: vec![] })
}

fn run(eng: &Engine, a: &Args) {
    let n = if a.tier == Tier::Quick { 48 } else { 600 };
    let tier = a.tier;
    eng.explore("descriptor-bound", scaled(n, a), move || strategy(tier), check);
}

fn replay(part: &str, case: serde_json::Value) -> Option<Verdict> {
    match part {
        "descriptor-bound" => Some(check(&serde_json::from_value(case).ok()?)),
        _ => None,
    }
}
