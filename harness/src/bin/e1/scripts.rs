//! C05, C06, C16 (E1 part): output scripts carried by generated chains, observed through csvdump
//! (address per output), simplestats (per-type counts and first occurrences) and opreturn.
use crate::common::*;
use crate::{holds, infra, scaled, Args, PropDef};
use proptest::prelude::*;
use serde::{Deserialize, Serialize};
use vpmodel::chain::{Coin, FORK_COINS};
use vpmodel::datadir::canonical_plan;
use vpmodel::engine::{Engine, Pass, Verdict};
use vpmodel::gen::{self, Tier, BS};
use vpmodel::oracle::{check_csvdump, check_opreturn, check_stats};
use vpmodel::run::{Callback, RunOpts};
use vpmodel::script::{btc_address_roundtrip, btc_expect, fork_expect, op_return_single_push, SType};
use vpmodel::spec::{chain_from_scripts, hexvec};

#[derive(Clone, Debug, Serialize, Deserialize)]
pub struct SCase {
    pub coin: Coin,
    #[serde(with = "hexvec")]
    pub scripts: Vec<Vec<u8>>,
    pub per_tx: u8,
    pub txs_per_block: u8,
    /// range selectors (C16): start and length
    pub range: Option<(u16, u16)>,
    /// number of -v flags
    #[serde(default)]
    pub verbose: u8,
    /// height of the first block (C16: heights of 9, 10 digits in the line format)
    #[serde(default)]
    pub base: u64,
    /// k > 0: in every k-th block the outputs of the first non-coinbase transaction become further outputs of the
    /// block's coinbase transaction (miners put commitments and tags there; position must not matter)
    #[serde(default)]
    pub cb_every: u8,
    /// the tool's stdout is a pseudo terminal instead of a pipe (C16)
    #[serde(default)]
    pub tty: bool,
}

fn scase(coins: Vec<Coin>, script: BS<Vec<u8>>, nscripts: std::ops::Range<usize>, ranges: bool) -> BS<SCase> {
    let r = if ranges { prop_oneof![2 => Just(None), 1 => (any::<u16>(), any::<u16>()).prop_map(Some)].boxed() } else { Just(None).boxed() };
    (proptest::sample::select(coins), proptest::collection::vec(script, nscripts), 1u8..6, 1u8..8, r, prop_oneof![4 => Just(0u8), 1 => Just(1u8), 1 => Just(2u8)]).prop_map(|(coin, scripts, per_tx, txs_per_block, range, verbose)| SCase { coin, scripts, per_tx, txs_per_block, range, verbose, base: 0, cb_every: 0, tty: false }).boxed()
}

fn build(c: &SCase) -> vpmodel::spec::Built {
    let mut spec = chain_spec(c);
    if c.cb_every > 0 {
        for (k, b) in spec.blocks.iter_mut().enumerate() {
            if k % c.cb_every as usize == 0 && !b.txs.is_empty() {
                let t = b.txs.remove(0);
                b.coinbase.outputs.extend(t.outputs);
            }
        }
    }
    spec.build()
}

fn chain_spec(c: &SCase) -> vpmodel::spec::ChainSpec {
    chain_from_scripts(c.coin, &c.scripts, &[0, 1, 546, 100_000, 5_000_000_000, 123_456_789], c.per_tx as usize, c.txs_per_block as usize, c.base, 1_300_000_000)
}

// ------------------------------------------------------------------------------------------ C05

pub const C05: PropDef = PropDef {
    id: "C05",
    level: "exploration",
    rule: "E1: chains on bitcoin/testnet3 whose outputs carry 30..400 scripts from the full script grammar (canonical templates with arbitrary payloads, one-byte substitutions / truncations / extensions / NOP insertions of templates, all 256 leading opcodes, witness v0..16 x program lengths 2..40 and illegal lengths, m-of-n for 0<=m,n<=16 incl. wrong n, token sequences, raw bytes). csvdump must equal the reference rendering (address column per output), every printed address must round-trip through the harness's own Base58Check/Bech32(m) decoder to the hash/program in the script, simplestats per-type counts and first occurrences must agree with the three-valued reference classifier. Non-trivial script = canonical template, near miss of one, or witness-program lookalike; distinct by script bytes (counted per script, not per chain).",
    assumptions: &["three-valued regions (never alarmed): witness v0 with program length not 20/32 (type WitnessProgram or unrecognised, no address); OP_RETURN followed by non-push bytes (OpReturn or Unspendable); multisig whose key pushes are not direct pushes of 33/65 bytes (multisig or unrecognised)"],
    run: run_c05,
    replay: replay_c05,
};

fn c05_strategy(tier: Tier) -> BS<SCase> {
    let n = if tier == Tier::Quick { 30..400 } else { 100..800 };
    scase(vec![Coin::Bitcoin, Coin::Testnet3], gen::any_script(tier), n, false)
}

pub fn check_c05(c: &SCase) -> Verdict {
    let built = build(c);
    let testnet = c.coin == Coin::Testnet3;
    let mut plan = canonical_plan(built.coin, &built.blocks);
    let w = infra!(World::create("c05", &mut plan));
    let all = built.all();
    let mut o0 = RunOpts::new(c.coin, Callback::CsvDump);
    o0.verbose = c.verbose;
    let out = infra!(w.run(&o0));
    if let Some(v) = timed_out_is_infra(&out) {
        return v;
    }
    // independent of the classifier: every reported address must round-trip to the script
    if out.ok() {
        if let Some((_, content)) = out.files.iter().find(|(n, _)| n.starts_with("tx_out-")) {
            for line in String::from_utf8_lossy(content).lines() {
                let f: Vec<&str> = line.split(';').collect();
                if f.len() == 5 && !f[4].is_empty() {
                    let script = vpmodel::hashes::unhex(f[3]);
                    if let Err(e) = btc_address_roundtrip(&script, testnet, f[4]) {
                        return Verdict::Fail(format!("script {} reported with address {}: {}", f[3], f[4], e));
                    }
                }
            }
        }
    }
    holds!(check_csvdump(c.coin, &all, &out, 0));
    let st = infra!(w.run(&RunOpts::new(c.coin, Callback::SimpleStats)));
    if let Some(v) = timed_out_is_infra(&st) {
        return v;
    }
    holds!(check_stats(c.coin, &all, &st));
    let mut pass = Pass { nontrivial: false, key: 0, classes: vec![format!("coin={}", c.coin.cli())], known: vec![], sub_evals: c.scripts.len() as u64, sample: None, extra_keys: vec![] };
    let mut types = std::collections::BTreeSet::new();
    let mut templ = 0;
    for s in &c.scripts {
        let e = btc_expect(s, testnet);
        if e.templateish {
            templ += 1;
        }
        for t in e.types {
            types.insert(t);
        }
    }
    for t in &types {
        pass.classes.push(format!("type={}", t.report_name()));
    }
    pass.nontrivial = templ >= 3 && types.len() >= 4;
    pass.key = key_of(c);
    pass.sample = Some(serde_json::json!({"coin": c.coin.cli(), "scripts": c.scripts.len(), "templateish": templ, "first_scripts": c.scripts.iter().take(4).map(|s| vpmodel::hashes::hex(&s[..s.len().min(80)])).collect::<Vec<_>>()}));
    Verdict::Pass(pass)
}

fn run_c05(eng: &Engine, a: &Args) {
    let n = if a.tier == Tier::Quick { 150 } else { 2000 };
    let tier = a.tier;
    eng.explore("scripts-in-chains", scaled(n, a), move || c05_strategy(tier), check_c05);
}

fn replay_c05(part: &str, case: serde_json::Value) -> Option<Verdict> {
    match part {
        "scripts-in-chains" => Some(check_c05(&serde_json::from_value(case).ok()?)),
        _ => None,
    }
}

// ------------------------------------------------------------------------------------------ C06

pub const C06: PropDef = PropDef {
    id: "C06",
    level: "exploration",
    rule: "E1: chains on the six fork coins whose outputs carry 30..400 scripts from the full grammar with every push form (direct, PUSHDATA1/2/4) in every template slot, zero-length and truncated pushes, NOP insertions, random tokens and bytes. csvdump (address per output), simplestats (type counts, first occurrences) and opreturn text must equal the strict reference tokeniser/template model with the coin's published version byte; every run must exit 0. Non-trivial script = contains PUSHDATA1/2/4 or a NOP, or is a template / near miss; distinct by script bytes.",
    assumptions: &["version bytes from the statement: namecoin 0x34, litecoin 0x30, dogecoin 0x1e, myriadcoin 0x32, unobtanium 0x82, noteblockchain 0x35; P2SH 0x05"],
    run: run_c06,
    replay: replay_c06,
};

fn c06_strategy(tier: Tier) -> BS<SCase> {
    let n = if tier == Tier::Quick { 30..400 } else { 100..800 };
    let script = prop_oneof![4 => gen::any_script(tier), 3 => gen::template_any_push(tier), 2 => gen::mutated_template(tier)].boxed();
    scase(FORK_COINS.to_vec(), script, n, false)
}

pub fn check_c06(c: &SCase) -> Verdict {
    let built = build(c);
    let mut plan = canonical_plan(built.coin, &built.blocks);
    let w = infra!(World::create("c06", &mut plan));
    let all = built.all();
    let mut o0 = RunOpts::new(c.coin, Callback::CsvDump);
    o0.verbose = c.verbose;
    let out = infra!(w.run(&o0));
    if let Some(v) = timed_out_is_infra(&out) {
        return v;
    }
    holds!(check_csvdump(c.coin, &all, &out, 0));
    let st = infra!(w.run(&RunOpts::new(c.coin, Callback::SimpleStats)));
    holds!(check_stats(c.coin, &all, &st));
    let op = infra!(w.run(&RunOpts::new(c.coin, Callback::OpReturn)));
    holds!(check_opreturn(c.coin, &all, &op));
    let mut types = std::collections::BTreeSet::new();
    let mut interesting = 0;
    for s in &c.scripts {
        let e = fork_expect(s, c.coin.addr_version());
        if e.interesting {
            interesting += 1;
        }
        types.insert(e.stype);
    }
    let mut classes = vec![format!("coin={}", c.coin.cli())];
    for t in &types {
        classes.push(format!("type={}", t.report_name()));
    }
    let sample = serde_json::json!({"coin": c.coin.cli(), "scripts": c.scripts.len(), "with_pushdata_or_nop_or_template": interesting, "first_scripts": c.scripts.iter().take(4).map(|s| vpmodel::hashes::hex(&s[..s.len().min(80)])).collect::<Vec<_>>()});
    Verdict::Pass(Pass { nontrivial: interesting >= 3, key: key_of(c), classes, known: vec![], sub_evals: c.scripts.len() as u64, sample: Some(sample), extra_keys: vec![] })
}

fn run_c06(eng: &Engine, a: &Args) {
    let n = if a.tier == Tier::Quick { 150 } else { 2000 };
    let tier = a.tier;
    eng.explore("scripts-in-chains", scaled(n, a), move || c06_strategy(tier), check_c06);
}

fn replay_c06(part: &str, case: serde_json::Value) -> Option<Verdict> {
    match part {
        "scripts-in-chains" => Some(check_c06(&serde_json::from_value(case).ok()?)),
        _ => None,
    }
}

// ------------------------------------------------------------------------------------------ C16

pub const C16: PropDef = PropDef {
    id: "C16",
    level: "exploration",
    rule: "E1: chains on all 8 coins whose outputs are OP_RETURN + exactly one push in each encoding (direct 1..75, PUSHDATA1 incl. 76..80 and 255, PUSHDATA2, PUSHDATA4; zero-length pushes) with payload classes ASCII / multi-byte UTF-8 / invalid UTF-8 / empty / containing newlines, mixed with every non-OP_RETURN script class, several per tx and per block, with and without --start/--end. stdout minus log lines must equal, byte for byte, the model's lines 'height: H txid: T    data: PAYLOAD' in chain order (bitcoin/testnet3: only non-empty valid UTF-8; fork coins: every non-empty payload, lossily decoded). Non-trivial = a payload needing PUSHDATA1/2/4, or invalid UTF-8, or >=2 printed lines in one tx; distinct by (coin class, push forms, payload classes) hash of the script list. Heights of 8..10 digits (base heights up to 2^31) are a class; in a third of the cases the outputs of some transactions are moved into the block's coinbase transaction; payloads starting with well-known protocol markers (aa21a9ed + 32 bytes, omni, RSKBLOCK:, ...) are a class.",
    assumptions: &["OP_RETURN scripts of other shapes are not generated here (the statement leaves their text open; totality for them is C14)", "generated payloads never contain a substring that looks like a log-line prefix"],
    run: run_c16,
    replay: replay_c16,
};

fn c16_strategy(tier: Tier) -> BS<SCase> {
    let n = if tier == Tier::Quick { 5..80 } else { 5..300 };
    // heights of 8..10 digits (the line pads the height to 9 columns; heights are an `int` in Bitcoin Core)
    let base = prop_oneof![12 => Just(0u64), 1 => Just(99_999_990u64), 1 => Just(999_999_995u64), 1 => Just((1u64 << 31) - 500), 1 => 1_000_000_000u64..(1u64 << 31) - 500];
    (scase(vpmodel::chain::ALL_COINS.to_vec(), gen::c16_script(tier), n, true), base, prop_oneof![2 => Just(0u8), 1 => 1u8..4], proptest::bool::weighted(0.25)).prop_map(|(mut c, base, cb_every, tty)| { c.base = base; c.cb_every = cb_every; c.tty = tty; c }).boxed()
}

pub fn check_c16(c: &SCase) -> Verdict {
    let built = build(c);
    let (base, tip) = (built.base(), built.tip());
    let (start, end) = match c.range {
        Some((a, b)) if tip > base => {
            let s = base + ((a as u64 * (tip - base)) >> 16); // base..tip-1
            let e = s + 1 + ((b as u64 * (tip + 2 - s - 1)) >> 16);
            (Some(s), Some(e))
        }
        _ if base > 0 => (Some(base), None),
        _ => (None, None),
    };
    let s = start.unwrap_or(0);
    let e = end.map(|x| x.min(tip)).unwrap_or(tip);
    let mut plan = canonical_plan(built.coin, &built.blocks);
    let w = infra!(World::create("c16", &mut plan));
    let mut o = RunOpts::new(c.coin, Callback::OpReturn);
    o.verbose = c.verbose;
    o.tty = c.tty;
    o.start = start;
    o.end = end;
    let out = infra!(w.run(&o));
    if let Some(v) = timed_out_is_infra(&out) {
        return v;
    }
    let range = range_of(&built.blocks, s, e);
    holds!(check_opreturn(c.coin, &range, &out).map_err(|m| format!("range {}..={}: {}", s, e, m)));
    let mut classes = vec![format!("coin-class={}", if c.coin.is_btc() { "bitcoin" } else { "fork" }), format!("ranged={}", start.is_some()), format!("stdout={}", if c.tty { "terminal" } else { "pipe" })];
    let mut nontrivial = false;
    for sc in &c.scripts {
        if let Some(p) = op_return_single_push(sc) {
            let form = match sc.get(1) {
                Some(0x4c) => "pushdata1",
                Some(0x4d) => "pushdata2",
                Some(0x4e) => "pushdata4",
                _ => "direct",
            };
            classes.push(format!("push={}", form));
            let pc = if p.is_empty() { "empty" } else if std::str::from_utf8(&p).is_err() { "invalid-utf8" } else if p.contains(&b'\n') { "newline" } else if p.is_ascii() { "ascii" } else { "multibyte" };
            classes.push(format!("payload={}", pc));
            if form != "direct" || pc == "invalid-utf8" {
                nontrivial = true;
            }
            if (76..=80).contains(&p.len()) {
                classes.push("payload-len-76..80".into());
            }
        }
    }
    classes.sort();
    classes.dedup();
    let sample = serde_json::json!({"coin": c.coin.cli(), "range": [start, end], "scripts": c.scripts.iter().take(5).map(|s| vpmodel::hashes::hex(&s[..s.len().min(60)])).collect::<Vec<_>>()});
    Verdict::Pass(Pass { nontrivial, key: key_of(c), classes, known: vec![], sub_evals: c.scripts.len() as u64, sample: Some(sample), extra_keys: vec![] })
}

fn run_c16(eng: &Engine, a: &Args) {
    let n = if a.tier == Tier::Quick { 300 } else { 4000 };
    let tier = a.tier;
    eng.explore("opreturn-text", scaled(n, a), move || c16_strategy(tier), check_c16);
    // more than 4 MB of lines in one run (60 000 outputs with 60..75-byte payloads), whole and as a range: a run's
    // output is not bounded by any buffer size, and log lines must not cut into data lines
    let scripts: Vec<Vec<u8>> = (0..60_000usize).map(|i| { let n = 60 + i % 16; let mut s = vec![0x6a, n as u8]; s.extend((0..n).map(|k| b'a' + ((i + k * 7) % 26) as u8)); s }).collect();
    let mk = |coin, range| SCase { coin, scripts: scripts.clone(), per_tx: 5, txs_per_block: 250, range, verbose: 0, base: 0, cb_every: 0, tty: false };
    eng.enumerate("more-than-4MB-of-lines", vec![mk(Coin::Bitcoin, None), mk(Coin::Litecoin, Some((20_000u16, 30_000u16)))], check_c16);
}

fn replay_c16(part: &str, case: serde_json::Value) -> Option<Verdict> {
    match part {
        "opreturn-text" | "more-than-4MB-of-lines" => Some(check_c16(&serde_json::from_value(case).ok()?)),
        _ => None,
    }
}

#[allow(dead_code)]
fn _unused(_: SType) {}
