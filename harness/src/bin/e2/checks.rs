// Per-item oracles shared by E2 (proptest driver) and E3 (libFuzzer targets); included with include!().
use crate::blockchain::parser::reader::{BlockchainRead, XorReader};
use crate::blockchain::parser::types::CoinType;
use crate::blockchain::proto::block::Block as RBlock;
use crate::blockchain::proto::script::eval_from_bytes;
use crate::blockchain::proto::ToRaw;
use proptest::prelude::*;
use serde::{Deserialize, Serialize};
use std::io::{Cursor, Read, Seek, SeekFrom};
use std::panic::{catch_unwind, AssertUnwindSafe};
use std::path::PathBuf;
use std::str::FromStr;
use vpmodel::chain::{Coin, ALL_COINS, FORK_COINS};
use vpmodel::engine::{Engine, Pass, RunCfg, Verdict};
use vpmodel::gen::{self, Tier, BS};
use vpmodel::hashes::{fnv64, hex};
use vpmodel::script::{btc_address_roundtrip, btc_expect, fork_expect, op_return_single_push, SType};
use vpmodel::spec::{hexvec, ChainSpec};


fn panic_text(e: Box<dyn std::any::Any + Send>) -> String {
    if let Some(s) = e.downcast_ref::<&str>() {
        s.to_string()
    } else if let Some(s) = e.downcast_ref::<String>() {
        s.clone()
    } else {
        "panic".into()
    }
}

// ------------------------------------------------------------------------------------ scripts

#[derive(Clone, Debug, Serialize, Deserialize)]
struct ScriptBatch {
    coin: Coin,
    #[serde(with = "hexvec")]
    scripts: Vec<Vec<u8>>,
}

fn batch(coins: Vec<Coin>, script: BS<Vec<u8>>, n: usize) -> BS<ScriptBatch> {
    (proptest::sample::select(coins), proptest::collection::vec(script, 1..=n)).prop_map(|(coin, scripts)| ScriptBatch { coin, scripts }).boxed()
}

/// (type label, address, OP_RETURN payload) as reported by the tool
fn eval(coin: Coin, s: &[u8]) -> Result<(String, Option<String>, Option<String>), String> {
    let r = catch_unwind(AssertUnwindSafe(|| eval_from_bytes(s, coin.addr_version())));
    match r {
        Ok(e) => {
            let dbg = format!("{:?}", e.pattern);
            let (label, payload) = if dbg.starts_with("OpReturn(") {
                let p = match &e.pattern {
                    crate::blockchain::proto::script::ScriptPattern::OpReturn(p) => Some(p.clone()),
                    _ => None,
                };
                ("OpReturn(\"\")".to_string(), p)
            } else {
                (dbg, None)
            };
            Ok((label, e.address, payload))
        }
        Err(p) => Err(panic_text(p)),
    }
}

fn check_script_batch(b: &ScriptBatch, prop: &str) -> Verdict {
    let mut keys = Vec::new();
    let testnet = b.coin == Coin::Testnet3;
    for s in &b.scripts {
        let (label, addr, payload) = match eval(b.coin, s) {
            Ok(x) => x,
            Err(p) => return Verdict::Fail(format!("script evaluation panicked on {} for script {}: {}", b.coin.cli(), hex(s), p)),
        };
        let st = SType::from_report_name(&label);
        if b.coin.is_btc() {
            let e = btc_expect(s, testnet);
            if prop != "C14" {
                match st {
                    Some(t) if e.types.contains(&t) => {}
                    _ => return Verdict::Fail(format!("{}: script {} typed {} but the reference rules allow {:?}", b.coin.cli(), hex(s), label, e.types)),
                }
                if addr != e.address {
                    return Verdict::Fail(format!("{}: script {} ({}): address {:?}, reference {:?}", b.coin.cli(), hex(s), label, addr, e.address));
                }
                if let Some(a) = &addr {
                    if let Err(m) = btc_address_roundtrip(s, testnet, a) {
                        return Verdict::Fail(format!("{}: script {} address {}: {}", b.coin.cli(), hex(s), a, m));
                    }
                }
                if let Some(p) = op_return_single_push(s) {
                    // C16: payload of OP_RETURN + exactly one push
                    let want = String::from_utf8(p).unwrap_or_default();
                    if payload.as_deref() != Some(want.as_str()) {
                        return Verdict::Fail(format!("{}: OP_RETURN script {}: payload {:?}, expected {:?}", b.coin.cli(), hex(s), payload, want));
                    }
                }
            }
            if e.templateish {
                keys.push(fnv64(s));
            }
        } else {
            let e = fork_expect(s, b.coin.addr_version());
            if prop != "C14" {
                if st != Some(e.stype) {
                    return Verdict::Fail(format!("{}: script {} typed {} but its token sequence is {:?}", b.coin.cli(), hex(s), label, e.stype));
                }
                if addr != e.address {
                    return Verdict::Fail(format!("{}: script {} ({}): address {:?}, reference {:?}", b.coin.cli(), hex(s), label, addr, e.address));
                }
                if e.stype == SType::OpReturn && payload != e.payload {
                    return Verdict::Fail(format!("{}: OP_RETURN script {}: payload {:?}, expected {:?}", b.coin.cli(), hex(s), payload, e.payload));
                }
            }
            if e.interesting {
                keys.push(fnv64(s));
            }
        }
        if prop == "C14" && st.is_none() {
            return Verdict::Fail(format!("{}: script {} evaluates to {}", b.coin.cli(), hex(s), label));
        }
    }
    let sample = serde_json::json!({"coin": b.coin.cli(), "scripts": b.scripts.iter().take(3).map(|s| hex(&s[..s.len().min(60)])).collect::<Vec<_>>()});
    Verdict::Pass(Pass { nontrivial: !keys.is_empty(), key: fnv64(format!("{:?}", keys).as_bytes()), classes: vec![format!("coin={}", b.coin.cli())], known: vec![], sub_evals: b.scripts.len() as u64, sample: Some(sample), extra_keys: keys })
}

// ------------------------------------------------------------------------------------ blocks

#[derive(Clone, Debug, Serialize, Deserialize)]
struct BlockCase {
    chain: ChainSpec,
}

fn cointype(c: Coin) -> CoinType {
    CoinType::from_str(c.cli()).expect("coin known to the tool")
}

fn check_block_case(c: &BlockCase) -> Verdict {
    let built = c.chain.build();
    let ct = cointype(built.coin);
    let mut n = 0;
    for (h, b) in &built.blocks {
        let bytes = b.ser();
        let r = catch_unwind(AssertUnwindSafe(|| {
            let mut cur = Cursor::new(bytes.clone());
            let blk = cur.read_block(bytes.len() as u32, &ct);
            (blk, cur.position())
        }));
        let (blk, pos) = match r {
            Ok((Ok(b), p)) => (b, p),
            Ok((Err(e), _)) => return Verdict::Fail(format!("read_block failed on a well-formed block at height {}: {}", h, e)),
            Err(p) => return Verdict::Fail(format!("read_block panicked at height {}: {}", h, panic_text(p))),
        };
        if let Err(m) = compare_block(b, &blk, pos, bytes.len()) {
            return Verdict::Fail(format!("block at height {} ({}): {}", h, built.coin.cli(), m));
        }
        n += 1;
    }
    let aux = built.blocks.iter().filter(|(_, b)| b.auxpow.is_some()).count();
    let seg = built.blocks.iter().any(|(_, b)| b.txs.iter().any(|t| t.segwit));
    let mut classes = vec![format!("coin={}", built.coin.cli())];
    if aux > 0 {
        classes.push("auxpow".into());
    }
    if seg {
        classes.push("segwit".into());
    }
    let sample = serde_json::json!({"coin": built.coin.cli(), "blocks": built.blocks.len(), "with_auxpow": aux, "segwit": seg});
    Verdict::Pass(Pass { nontrivial: aux > 0 || seg || built.blocks.iter().any(|(_, b)| b.txs.len() > 1), key: fnv64(serde_json::to_string(c).unwrap_or_default().as_bytes()), classes, known: vec![], sub_evals: n, sample: Some(sample), extra_keys: vec![] })
}

fn compare_block(m: &vpmodel::chain::Block, r: &RBlock, pos: u64, len: usize) -> Result<(), String> {
    use bitcoin::hashes::Hash;
    if pos as usize != len {
        return Err(format!("reader consumed {} of {} bytes", pos, len));
    }
    if r.header.hash.to_byte_array() != m.hash() {
        return Err("block hash differs from double-SHA256 of the 80-byte header".into());
    }
    let hv = &r.header.value;
    if (hv.version, hv.timestamp, hv.bits, hv.nonce) != (m.version, m.time, m.bits, m.nonce) || hv.prev_hash.to_byte_array() != m.prev || hv.merkle_root.to_byte_array() != m.merkle {
        return Err("header fields differ".into());
    }
    if r.aux_pow_extension.is_some() != m.auxpow.is_some() {
        return Err(format!("AuxPoW section {} but the block {} one", if r.aux_pow_extension.is_some() { "decoded" } else { "not decoded" }, if m.auxpow.is_some() { "has" } else { "has not" }));
    }
    if r.tx_count.value != m.txs.len() as u64 || r.txs.len() != m.txs.len() {
        return Err(format!("tx count {} / {} txs decoded, block has {}", r.tx_count.value, r.txs.len(), m.txs.len()));
    }
    for (i, (rt, mt)) in r.txs.iter().zip(m.txs.iter()).enumerate() {
        if rt.hash.to_byte_array() != mt.txid() {
            return Err(format!("txid of tx {} differs from double-SHA256 of the witness-stripped serialisation", i));
        }
        if rt.value.to_bytes() != mt.ser_stripped() {
            return Err(format!("re-serialisation of tx {} differs from the witness-stripped bytes", i));
        }
        let v = &rt.value;
        if (v.version, v.locktime) != (mt.version, mt.locktime) || v.inputs.len() != mt.inputs.len() || v.outputs.len() != mt.outputs.len() || v.in_count.value != mt.inputs.len() as u64 || v.out_count.value != mt.outputs.len() as u64 {
            return Err(format!("tx {}: version/locktime/counts differ", i));
        }
        for (k, (ri, mi)) in v.inputs.iter().zip(mt.inputs.iter()).enumerate() {
            if ri.outpoint.txid.to_byte_array() != mi.prev_txid || ri.outpoint.index != mi.prev_index || ri.script_sig != mi.script_sig || ri.seq_no != mi.sequence {
                return Err(format!("tx {} input {} differs", i, k));
            }
        }
        for (k, (ro, mo)) in v.outputs.iter().zip(mt.outputs.iter()).enumerate() {
            if ro.out.value != mo.value || ro.out.script_pubkey != mo.script {
                return Err(format!("tx {} output {} differs", i, k));
            }
        }
    }
    if r.compute_merkle_root().to_byte_array() != m.merkle {
        return Err("computed merkle root differs from the reference merkle root".into());
    }
    Ok(())
}

// ------------------------------------------------------------------------------------ merkle

#[derive(Clone, Debug, Serialize, Deserialize)]
struct MerkleCase {
    n: u32,
    seed: u32,
}

fn check_merkle(c: &MerkleCase) -> Verdict {
    use bitcoin::hashes::{sha256d, Hash};
    let n = (c.n as usize).max(1);
    let leaves: Vec<[u8; 32]> = (0..n).map(|i| vpmodel::hashes::sha256(&[(c.seed as u64 + i as u64).to_le_bytes().as_slice(), b"leaf"].concat())).collect();
    let want = vpmodel::chain::merkle_root(&leaves);
    let r = catch_unwind(|| crate::common::utils::merkle_root(leaves.iter().map(|l| sha256d::Hash::from_byte_array(*l)).collect()));
    match r {
        Ok(g) if g.to_byte_array() == want => {}
        Ok(_) => return Verdict::Fail(format!("merkle_root of {} leaves differs from the Bitcoin merkle root", n)),
        Err(p) => return Verdict::Fail(format!("merkle_root panicked on {} leaves: {}", n, panic_text(p))),
    }
    let class = if n.is_power_of_two() { "2^k" } else if (n + 1).is_power_of_two() || (n - 1).is_power_of_two() { "2^k+-1" } else if n % 2 == 1 { "odd" } else { "even" };
    Verdict::Pass(Pass { nontrivial: n >= 3, key: n as u64, classes: vec![format!("shape={}", class)], known: vec![], sub_evals: 1, sample: Some(serde_json::json!({"leaves": n})), extra_keys: vec![] })
}

// ------------------------------------------------------------------------------------ xor reader

#[derive(Clone, Debug, Serialize, Deserialize)]
enum Op {
    SeekStart(u32),
    /// seek to boundary[which] + delta (boundaries: 0, 32 KiB, 64 KiB, 2^31, 2^32, 2^32+2^31, len)
    SeekNear(u8, i16),
    ReadExact(u16),
    ReadU32,
    Read(u16),
}

#[derive(Clone, Debug, Serialize, Deserialize)]
struct XorCase {
    len: u64,
    #[serde(with = "vpmodel::spec::hexser")]
    key: Vec<u8>,
    bufcap: u16,
    ops: Vec<Op>,
}

fn xor_strategy() -> BS<XorCase> {
    let op = prop_oneof![3 => any::<u32>().prop_map(Op::SeekStart), 2 => (0u8..7, any::<i16>()).prop_map(|(w, d)| Op::SeekNear(w, d)), 4 => (0u16..5000).prop_map(Op::ReadExact), 2 => Just(Op::ReadU32), 2 => (0u16..40000).prop_map(Op::Read)];
    (prop_oneof![4 => 1000u64..120_000, 2 => Just((1u64 << 32) + 100_000), 1 => Just((1u64 << 33) + 12_345)], proptest::option::weighted(0.85, prop_oneof![8 => Just(8usize), 2 => Just(1usize), 6 => 1usize..=64, 1 => 65usize..=300, 1 => prop_oneof![Just(255usize), Just(256usize), Just(257usize), Just(4096usize), Just(32767usize), Just(32768usize), Just(32769usize), Just(70_001usize)]].prop_flat_map(|n| proptest::collection::vec(any::<u8>(), n))), prop_oneof![3 => Just(32768u16), 2 => 1u16..200, 1 => 200u16..40000], proptest::collection::vec(op, 1..60))
        .prop_map(|(len, key, bufcap, ops)| XorCase { len, key: key.unwrap_or_default(), bufcap, ops })
        .boxed()
}

/// plaintext byte at file offset i
fn plain_at(i: u64) -> u8 {
    ((i.wrapping_mul(131)) ^ (i >> 8) ^ (i >> 29) ^ 0x5a) as u8
}

/// synthetic, arbitrarily large "file" whose stored bytes are plaintext XOR key (no memory needed)
struct Synth {
    pos: u64,
    len: u64,
    key: Vec<u8>,
}

impl Read for Synth {
    fn read(&mut self, buf: &mut [u8]) -> std::io::Result<usize> {
        let n = (buf.len() as u64).min(self.len.saturating_sub(self.pos)) as usize;
        for (k, b) in buf[..n].iter_mut().enumerate() {
            let i = self.pos + k as u64;
            *b = plain_at(i) ^ if self.key.is_empty() { 0 } else { self.key[(i % self.key.len() as u64) as usize] };
        }
        self.pos += n as u64;
        Ok(n)
    }
}

impl Seek for Synth {
    fn seek(&mut self, p: SeekFrom) -> std::io::Result<u64> {
        self.pos = match p {
            SeekFrom::Start(x) => x,
            SeekFrom::Current(d) => (self.pos as i64 + d) as u64,
            SeekFrom::End(d) => (self.len as i64 + d) as u64,
        };
        Ok(self.pos)
    }
}

fn check_xor(c: &XorCase) -> Verdict {
    let len = c.len;
    let plain = |from: u64, n: usize| -> Vec<u8> { (0..n as u64).map(|k| plain_at(from + k)).collect() };
    let inner = seek_bufread::BufReader::with_capacity(c.bufcap.max(1) as usize, Synth { pos: 0, len, key: c.key.clone() });
    let mut rd = XorReader::new(inner, if c.key.is_empty() { None } else { Some(c.key.clone()) });
    let mut pos: u64 = 0;
    let mut back = false;
    let mut beyond4g = false;
    let mut cross = false;
    for (k, op) in c.ops.iter().enumerate() {
        let r = catch_unwind(AssertUnwindSafe(|| -> Result<(), String> {
            match op {
                Op::SeekStart(_) | Op::SeekNear(..) => {
                    let p = match op {
                        Op::SeekStart(p) => (*p as u128 * (len as u128 + 1) >> 32) as u64,
                        Op::SeekNear(w, d) => {
                            let b = [0u64, 32768, 65536, 1 << 31, 1 << 32, (1 << 32) + (1 << 31), len][*w as usize % 7];
                            (b as i128 + *d as i128).clamp(0, len as i128) as u64
                        }
                        _ => 0,
                    };
                    if p < pos {
                        back = true;
                    }
                    if (p as i128 - pos as i128).unsigned_abs() > c.bufcap as u128 {
                        cross = true;
                    }
                    if p > u32::MAX as u64 {
                        beyond4g = true;
                    }
                    let got = rd.seek(SeekFrom::Start(p)).map_err(|e| e.to_string())?;
                    if got != p {
                        return Err(format!("seek to {} returned {}", p, got));
                    }
                    pos = p;
                }
                Op::ReadExact(n) => {
                    let n = (*n as u64).min(len - pos) as usize;
                    let mut buf = vec![0u8; n];
                    rd.read_exact(&mut buf).map_err(|e| e.to_string())?;
                    let want = plain(pos, n);
                    if buf != want {
                        let i = buf.iter().zip(&want).position(|(a, b)| a != b).unwrap();
                        return Err(format!("read_exact({}) at offset {}: byte at offset {} decodes wrongly", n, pos, pos + i as u64));
                    }
                    pos += n as u64;
                }
                Op::ReadU32 => {
                    if len - pos >= 4 {
                        use byteorder::{LittleEndian, ReadBytesExt};
                        let v = rd.read_u32::<LittleEndian>().map_err(|e| e.to_string())?;
                        let wb = plain(pos, 4);
                        let w = u32::from_le_bytes([wb[0], wb[1], wb[2], wb[3]]);
                        if v != w {
                            return Err(format!("read_u32 at offset {}: got {:#x}, expected {:#x}", pos, v, w));
                        }
                        pos += 4;
                    }
                }
                Op::Read(n) => {
                    let mut buf = vec![0u8; *n as usize];
                    let got = rd.read(&mut buf).map_err(|e| e.to_string())?;
                    if got as u64 > len - pos || buf[..got] != plain(pos, got)[..] {
                        return Err(format!("read({}) at offset {} returned {} wrongly decoded bytes", n, pos, got));
                    }
                    pos += got as u64;
                }
            }
            Ok(())
        }));
        match r {
            Ok(Ok(())) => {}
            Ok(Err(m)) => return Verdict::Fail(format!("XorReader (key length {}, buffer {}), op #{} {:?}: {}", c.key.len(), c.bufcap, k, op, m)),
            Err(p) => return Verdict::Fail(format!("XorReader panicked at op #{} {:?}: {}", k, op, panic_text(p))),
        }
    }
    let mut classes = vec![format!("keylen={}", match c.key.len() { 0 => "none", 1 => "1", 8 => "8", 2..=7 => "2-7", 9..=64 => "9-64", _ => ">64" })];
    if back {
        classes.push("backward-seek".into());
    }
    if cross {
        classes.push("seek-beyond-buffer".into());
    }
    if beyond4g {
        classes.push("offset>4GiB".into());
    }
    Verdict::Pass(Pass { nontrivial: back && !c.key.is_empty() && c.key.len() != 1, key: fnv64(serde_json::to_string(c).unwrap_or_default().as_bytes()), classes, known: vec![], sub_evals: c.ops.len() as u64, sample: Some(serde_json::json!({"key_len": c.key.len(), "buffer": c.bufcap, "ops": c.ops.iter().take(6).map(|o| format!("{:?}", o)).collect::<Vec<_>>()})), extra_keys: vec![] })
}

// ------------------------------------------------------------------------------------ get_mean

#[derive(Clone, Debug, Serialize, Deserialize)]
struct MeanCase {
    v: Vec<u32>,
}

fn check_mean(c: &MeanCase) -> Verdict {
    let r = catch_unwind(|| crate::common::utils::get_mean(&c.v));
    let sum: u128 = c.v.iter().map(|x| *x as u128).sum();
    match r {
        Ok(g) => {
            if !c.v.is_empty() {
                let exact = sum as f64 / c.v.len() as f64;
                if (g - exact).abs() > 1e-9 * exact.abs() + 1e-9 {
                    return Verdict::Fail(format!("get_mean of {} samples (sum {}) returned {}, exact mean is {}", c.v.len(), sum, g, exact));
                }
            }
        }
        Err(p) => return Verdict::Fail(format!("get_mean panicked on {} samples with sum {}: {}", c.v.len(), sum, panic_text(p))),
    }
    let big = sum > u32::MAX as u128;
    Verdict::Pass(Pass { nontrivial: big, key: fnv64(format!("{:?}", c.v).as_bytes()), classes: vec![format!("sum>2^32={}", big)], known: vec![], sub_evals: 1, sample: Some(serde_json::json!({"n": c.v.len(), "sum": sum.to_string()})), extra_keys: vec![] })
}

// ------------------------------------------------------------------------------------ thread pools

#[derive(Clone, Debug, Serialize, Deserialize)]
struct PoolCase {
    chain: ChainSpec,
    threads: u8,
}

fn check_pool(c: &PoolCase) -> Verdict {
    let built = c.chain.build();
    let ct = cointype(built.coin);
    let pool = match rayon::ThreadPoolBuilder::new().num_threads(c.threads.max(1) as usize).build() {
        Ok(p) => p,
        Err(e) => return Verdict::Infra(format!("cannot build a rayon pool: {}", e)),
    };
    let mut n = 0;
    for (h, b) in &built.blocks {
        let bytes = b.ser();
        for _rep in 0..3 {
            let r = pool.install(|| {
                let mut cur = Cursor::new(bytes.clone());
                cur.read_block(bytes.len() as u32, &ct).map_err(|e| e.to_string())
            });
            let blk = match r {
                Ok(b) => b,
                Err(e) => return Verdict::Fail(format!("read_block failed at height {}: {}", h, e)),
            };
            if let Err(m) = compare_block(b, &blk, bytes.len() as u64, bytes.len()) {
                return Verdict::Fail(format!("with a pool of {} threads, block at height {}: {}", c.threads, h, m));
            }
            // evaluated outputs must line up with the raw outputs (order of the inner collect)
            for (rt, mt) in blk.txs.iter().zip(b.txs.iter()) {
                for (ro, mo) in rt.value.outputs.iter().zip(mt.outputs.iter()) {
                    let e = vpmodel::script::expect_for(built.coin, &mo.script);
                    if ro.script.address != e.address {
                        return Verdict::Fail(format!("with a pool of {} threads an output's evaluated address does not belong to its script", c.threads));
                    }
                }
            }
            n += 1;
        }
    }
    let maxtx = built.blocks.iter().map(|(_, b)| b.txs.len()).max().unwrap_or(0);
    Verdict::Pass(Pass { nontrivial: maxtx >= 16 && c.threads >= 2, key: fnv64(serde_json::to_string(c).unwrap_or_default().as_bytes()), classes: vec![format!("threads={}", c.threads)], known: vec![], sub_evals: n, sample: Some(serde_json::json!({"threads": c.threads, "max_txs": maxtx})), extra_keys: vec![] })
}

