//! E2: in-process engine. The repository's leaf modules (proto/*, parser/reader.rs,
//! parser/types.rs, common/*) are compiled into this binary by path (see build.rs); nothing in
//! /repo is modified. If this binary does not build against an edited /repo/src, the front end
//! reports E2 as skipped and E1 alone decides.
#[macro_use]
extern crate log;

include!(concat!(env!("OUT_DIR"), "/shim.rs"));

include!("checks.rs");

struct Args {
    tier: Tier,
    seed: u64,
    out: PathBuf,
    scale: f64,
}

fn scaled(n: u32, a: &Args) -> u32 {
    ((n as f64) * a.scale).ceil().max(1.0) as u32
}

// ------------------------------------------------------------------------------------ driver

fn block_strategy(tier: Tier, auxpow_only: bool) -> BS<BlockCase> {
    let mut cfg = gen::ChainCfg::new(tier, gen::ordinary_script(tier));
    cfg.tx.big_counts = true;
    cfg.tx.max_value = u64::MAX;
    cfg.nblocks = (1usize..=3).boxed();
    cfg.ntx = prop_oneof![6 => 0usize..4, 1 => Just(0xfcusize), 1 => Just(0xfdusize)].boxed();
    if auxpow_only {
        cfg.coin = prop_oneof![4 => Just(Coin::Namecoin), 4 => Just(Coin::Dogecoin), 1 => gen::any_coin()].boxed();
    }
    gen::chain(&cfg).prop_map(|chain| BlockCase { chain }).boxed()
}

/// inputs of the defects repaired by the "fix:" commits (known_findings.json, fixed entries):
/// plain regression checks that bypass the generators and run first
fn regressions(id: &str) -> Vec<ScriptBatch> {
    let a80 = vec![b'A'; 80];
    let mut d4a = vec![0x6a, 0x4c, 0x50];
    d4a.extend(&a80);
    let d4b = vec![0x6a, 0x4d, 0x05, 0x00, b'h', b'e', b'l', b'l', b'o'];
    let d4c = vec![0x6a, 0x4c, 0x05, b'h', b'e', b'l', b'l', b'o'];
    let mut d4d = vec![0x76, 0xa9, 0x4c, 0x14];
    d4d.extend([0x33u8; 20]);
    d4d.extend([0x88, 0xac]);
    let mut d6a = vec![0x51];
    d6a.extend(std::iter::repeat(0u8).take(256));
    let mut d6b = vec![0x51];
    d6b.extend(std::iter::repeat(0u8).take(257));
    d6b.extend([0x51, 0xae]);
    let mut d6c = vec![0x51, 0x21];
    d6c.extend([0x02u8; 33]);
    d6c.extend([0x76, 0xae]);
    let fork = vec![d4a.clone(), d4b.clone(), d4c.clone(), d4d.clone()];
    let btc = vec![d4a, d4b, d4c, d6a, d6b, d6c];
    match id {
        "C05" | "C16" | "C14" => {
            let mut v = vec![ScriptBatch { coin: Coin::Bitcoin, scripts: btc.clone() }, ScriptBatch { coin: Coin::Testnet3, scripts: btc }];
            if id != "C05" {
                v.push(ScriptBatch { coin: Coin::Litecoin, scripts: fork.clone() });
                v.push(ScriptBatch { coin: Coin::Dogecoin, scripts: fork });
            }
            v
        }
        "C06" => FORK_COINS.iter().map(|c| ScriptBatch { coin: *c, scripts: fork.clone() }).collect(),
        _ => vec![],
    }
}

/// Bounded-exhaustive script sets: every script of at most two bytes, and the complete one-edit neighbourhood of
/// 29 templates (every substitution of every byte by every value, every one-byte insertion at every
/// position, every truncation) - about 600 000 scripts per coin.
fn neighbourhood(full: bool) -> Vec<Vec<u8>> {
    let mut out: Vec<Vec<u8>> = vec![vec![]];
    for a in 0..=255u8 {
        out.push(vec![a]);
        for b in 0..=255u8 {
            out.push(vec![a, b]);
        }
    }
    let h20: Vec<u8> = (0..20u8).map(|i| i.wrapping_mul(37).wrapping_add(0x11)).collect();
    let h32: Vec<u8> = (0..32u8).map(|i| i.wrapping_mul(29).wrapping_add(0x07)).collect();
    let k33: Vec<u8> = std::iter::once(0x02u8).chain(h32.iter().cloned()).collect();
    let k65: Vec<u8> = std::iter::once(0x04u8).chain(h32.iter().cloned()).chain(h32.iter().rev().cloned()).collect();
    let cat = |parts: &[&[u8]]| -> Vec<u8> { parts.concat() };
    let mut templates: Vec<Vec<u8>> = vec![
        cat(&[&[0x76, 0xa9, 0x14], &h20, &[0x88, 0xac]]),
        cat(&[&[0xa9, 0x14], &h20, &[0x87]]),
        cat(&[&[0x21], &k33, &[0xac]]),
        cat(&[&[0x41], &k65, &[0xac]]),
        cat(&[&[0x00, 0x14], &h20]),
        cat(&[&[0x00, 0x20], &h32]),
        cat(&[&[0x51, 0x20], &h32]),
        cat(&[&[0x52, 0x28], &h32, &h20[..8]]),
        cat(&[&[0x60, 0x02, 0xab, 0xcd]]),
        cat(&[&[0x51, 0x21], &k33, &[0x51, 0xae]]),
        cat(&[&[0x6a, 0x05], b"hello"]),
        cat(&[&[0x6a, 0x4c, 0x05], b"hello"]),
        cat(&[&[0x6a, 0x4d, 0x05, 0x00], b"hello"]),
        cat(&[&[0x6a, 0x4e, 0x05, 0x00, 0x00, 0x00], b"hello"]),
    ];
    let p75: Vec<u8> = (0..75u8).map(|i| b'a' + i % 26).collect();
    let p76: Vec<u8> = (0..76u8).map(|i| b'A' + i % 26).collect();
    templates.push(cat(&[&[0x52, 0x21], &k33, &[0x21], &k33, &[0x21], &k33, &[0x53, 0xae]]));
    templates.push(cat(&[&[0x76, 0xa9, 0x4c, 0x14], &h20, &[0x88, 0xac]]));
    templates.push(cat(&[&[0xa9, 0x4d, 0x14, 0x00], &h20, &[0x87]]));
    templates.push(cat(&[&[0x4e, 0x21, 0x00, 0x00, 0x00], &k33, &[0xac]]));
    templates.push(cat(&[&[0x6a, 0x4b], &p75]));
    templates.push(cat(&[&[0x6a, 0x4c, 0x4c], &p76]));
    templates.push(cat(&[&[0x51, 0x21], &k33, &[0x21], &k33, &[0x52, 0xae]]));
    templates.push(cat(&[&[0x60, 0x28], &h32, &h20[..8]]));
    templates.push(cat(&[&[0x61, 0x76, 0xa9, 0x14], &h20, &[0x88, 0x61, 0xac]]));
    templates.push(vec![0x51, 0x02, 0x4e, 0x73]);
    // Namecoin name operations in front of a P2PKH template (NAME_NEW, NAME_UPDATE)
    templates.push(cat(&[&[0x51, 0x14], &h20, &[0x6d, 0x76, 0xa9, 0x14], &h20, &[0x88, 0xac]]));
    templates.push(cat(&[&[0x53, 0x04], b"d/ab", &[0x03], b"val", &[0x6d, 0x75, 0x76, 0xa9, 0x14], &h20, &[0x88, 0xac]]));
    templates.push(cat(&[&[0x01, 0x02, 0x21], &k33, &[0x21], &k33, &[0x21], &k33, &[0x53, 0xae]]));
    templates.push(cat(&[&[0x51, 0x21], &k33, &[0x01, 0x01, 0xae]]));
    templates.push(cat(&[&[0x76, 0xa9, 0x14], &[0u8; 20], &[0x88, 0xac]]));
    let _ = full;
    // templates longer than 10 000 bytes (Bitcoin's MAX_SCRIPT_SIZE is a consensus rule about spending, not a template
    // rule): a data slot filled by one PUSHDATA2 push, and padding with ignored no-ops
    let big: Vec<u8> = (0..10_050u32).map(|i| (i % 251) as u8).collect();
    for n in [9_990usize, 9_995, 9_996, 9_997, 10_000, 10_050] {
        let len = (n as u16).to_le_bytes();
        out.push(cat(&[&[0x76, 0xa9, 0x4d], &len, &big[..n], &[0x88, 0xac]]));
        out.push(cat(&[&[0xa9, 0x4d], &len, &big[..n], &[0x87]]));
        out.push(cat(&[&[0x4d], &len, &big[..n], &[0xac]]));
        out.push(cat(&[&[0x6a, 0x4d], &len, &big[..n]]));
        out.push(cat(&[&[0x51, 0x4d], &len, &big[..n], &[0x51, 0xae]]));
        let mut padded = vec![0x61u8; n];
        padded.extend(cat(&[&[0x76, 0xa9, 0x14], &h20, &[0x88, 0xac]]));
        out.push(padded);
    }
    for t in &templates {
        out.push(t.clone());
        for pos in 0..t.len() {
            out.push(t[..pos].to_vec());
            for v in 0..=255u8 {
                if v != t[pos] {
                    let mut m = t.clone();
                    m[pos] = v;
                    out.push(m);
                }
            }
        }
        for pos in 0..=t.len() {
            for v in 0..=255u8 {
                let mut m = t.clone();
                m.insert(pos, v);
                out.push(m);
            }
        }
    }
    out
}

/// the complete TWO-substitution neighbourhood of a template (P2SH, P2WPKH), enumerated lazily - a case names two
/// positions, the check walks all 65 536 value pairs
#[derive(Clone, Debug, Serialize, Deserialize)]
struct PairCase {
    coin: Coin,
    #[serde(with = "vpmodel::spec::hexser")]
    template: Vec<u8>,
    p1: usize,
    p2: usize,
}

fn pair_cases(coins: &[Coin], all_positions: bool) -> Vec<PairCase> {
    let h20: Vec<u8> = (0..20u8).map(|i| i.wrapping_mul(37).wrapping_add(0x11)).collect();
    let mut sh = vec![0xa9, 0x14];
    sh.extend(&h20);
    sh.push(0x87);
    let mut wpkh = vec![0x00, 0x14];
    wpkh.extend(&h20);
    let mut v = Vec::new();
    for c in coins {
        for t in [&sh, &wpkh] {
            // positions of the opcodes / lengths and two payload bytes (payload bytes are interchangeable)
            let pos: Vec<usize> = (0..t.len()).filter(|i| all_positions || *i < 4 || *i >= t.len() - 2).collect();
            for (a, p1) in pos.iter().enumerate() {
                for p2 in pos.iter().skip(a + 1) {
                    v.push(PairCase { coin: *c, template: t.clone(), p1: *p1, p2: *p2 });
                }
            }
        }
    }
    v
}

fn check_pair(c: &PairCase, prop: &str) -> Verdict {
    let mut scripts = Vec::with_capacity(65_536);
    for a in 0..=255u8 {
        for b in 0..=255u8 {
            let mut s = c.template.clone();
            s[c.p1] = a;
            s[c.p2] = b;
            scripts.push(s);
        }
    }
    match check_script_batch(&ScriptBatch { coin: c.coin, scripts }, prop) {
        Verdict::Pass(mut p) => {
            p.sample = None;
            p.extra_keys.truncate(8);
            Verdict::Pass(p)
        }
        other => other,
    }
}

fn neighbourhood_batches(coins: &[Coin], full: bool) -> Vec<ScriptBatch> {
    let all = neighbourhood(full);
    let mut v = Vec::new();
    for c in coins {
        for chunk in all.chunks(1024) {
            v.push(ScriptBatch { coin: *c, scripts: chunk.to_vec() });
        }
    }
    v
}

fn run_property(id: &str, eng: &Engine, a: &Args) -> (&'static str, Vec<&'static str>) {
    let tier = a.tier;
    let q = tier == Tier::Quick;
    let reg = regressions(id);
    if !reg.is_empty() {
        let idc = id.to_string();
        eng.enumerate("fixed-defect-regressions", reg, move |b| check_script_batch(b, &idc));
    }
    // bounded-exhaustive part of the script properties
    let nb_coins: Vec<Coin> = match id {
        "C05" => vec![Coin::Bitcoin, Coin::Testnet3],
        "C06" => FORK_COINS.to_vec(),
        "C14" => ALL_COINS.to_vec(),
        "C16" => vec![Coin::Bitcoin, Coin::Litecoin],
        _ => vec![],
    };
    if !nb_coins.is_empty() {
        let idc = id.to_string();
        eng.enumerate("short-scripts-and-template-neighbourhoods", neighbourhood_batches(&nb_coins, !q), move |b| check_script_batch(b, &idc));
        if id != "C16" {
            // quick: both substituted positions among the opcodes, lengths and the first / last payload bytes; thorough: all pairs
            let idc = id.to_string();
            eng.enumerate("two-substitution-neighbourhoods", pair_cases(&nb_coins, !q), move |c| check_pair(c, &idc));
        }
    }
    match id {
        "C05" => {
            let n = if q { 2400 } else { 80_000 };
            eng.explore("per-script", scaled(n, a), move || batch(vec![Coin::Bitcoin, Coin::Testnet3], gen::any_script(tier), 256), |b| check_script_batch(b, "C05"));
            ("E2: batches of up to 256 scripts from the full grammar evaluated in-process by eval_from_bytes(bytes, 0x00|0x6f); each verdict (type, address, OP_RETURN payload) compared with the three-valued reference classifier and the address round-trip decoder. Non-trivial script = template / near miss / witness lookalike; distinct by script bytes. Bounded-exhaustive part 'short-scripts-and-template-neighbourhoods': every script of at most two bytes and the complete one-edit neighbourhood (every one-byte substitution, insertion, truncation) of 29 templates (canonical forms, pay-to-anchor, a burn output, multisig shapes whose number slots hold pushed data, Namecoin name operations in front of P2PKH) on each coin of the property. Part 'two-substitution-neighbourhoods': every pair of byte values at two positions of the P2SH and P2WPKH templates (quick: positions among opcodes, lengths, first / last payload bytes; thorough: all position pairs).", vec![])
        }
        "C06" => {
            let n = if q { 2400 } else { 80_000 };
            eng.explore("per-script", scaled(n, a), move || batch(FORK_COINS.to_vec(), prop_oneof![4 => gen::any_script(tier), 3 => gen::template_any_push(tier), 2 => gen::mutated_template(tier)].boxed(), 256), |b| check_script_batch(b, "C06"));
            ("E2: batches of up to 256 scripts evaluated in-process with each fork coin's version byte; type, address and OP_RETURN payload compared with the strict reference tokeniser/template model. Non-trivial = contains PUSHDATA/NOP or is a template; distinct by script bytes. Bounded-exhaustive part 'short-scripts-and-template-neighbourhoods': every script of at most two bytes and the complete one-edit neighbourhood (every one-byte substitution, insertion, truncation) of 29 templates (canonical forms, pay-to-anchor, a burn output, multisig shapes whose number slots hold pushed data, Namecoin name operations in front of P2PKH) on each coin of the property. Part 'two-substitution-neighbourhoods': every pair of byte values at two positions of the P2SH and P2WPKH templates (quick: positions among opcodes, lengths, first / last payload bytes; thorough: all position pairs).", vec![])
        }
        "C16" => {
            let n = if q { 1600 } else { 20_000 };
            eng.explore("payload-extraction", scaled(n, a), move || batch(ALL_COINS.to_vec(), gen::c16_script(tier), 256), |b| check_script_batch(b, "C16"));
            ("E2: OP_RETURN single-push scripts in every push encoding and payload class evaluated in-process on all 8 coins; extracted payload compared with the pushed bytes (valid UTF-8 only on bitcoin/testnet3, lossy on fork coins). Bounded-exhaustive part 'short-scripts-and-template-neighbourhoods': every script of at most two bytes and the complete one-edit neighbourhood (every one-byte substitution, insertion, truncation) of 29 templates (canonical forms, pay-to-anchor, a burn output, multisig shapes whose number slots hold pushed data, Namecoin name operations in front of P2PKH) on each coin of the property.", vec![])
        }
        "C14" => {
            let n = if q { 4000 } else { 200_000 };
            eng.explore("totality", scaled(n, a), move || batch(ALL_COINS.to_vec(), prop_oneof![3 => gen::any_script(tier), 2 => gen::many_pushes(tier), 2 => gen::token_script(tier), 1 => gen::raw_script(tier), 1 => gen::leading_opcode(tier)].boxed(), 256), |b| check_script_batch(b, "C14"));
            ("E2: catch_unwind around eval_from_bytes for batches of hostile scripts (truncated pushes, huge PUSHDATA4, all leading opcodes, hundreds to thousands of pushes, raw bytes) on all 8 coins, debug assertions and overflow checks on; any panic or Error(..) verdict is a violation. Bounded-exhaustive part 'short-scripts-and-template-neighbourhoods': every script of at most two bytes and the complete one-edit neighbourhood (every one-byte substitution, insertion, truncation) of 29 templates (canonical forms, pay-to-anchor, a burn output, multisig shapes whose number slots hold pushed data, Namecoin name operations in front of P2PKH) on each coin of the property. Part 'two-substitution-neighbourhoods': every pair of byte values at two positions of the P2SH and P2WPKH templates (quick: positions among opcodes, lengths, first / last payload bytes; thorough: all position pairs).", vec![])
        }
        "C01" => {
            let n = if q { 600 } else { 20_000 };
            eng.explore("read_block-roundtrip", scaled(n, a), move || block_strategy(tier, false), check_block_case);
            ("E2: generated blocks (CompactSize boundary classes, legacy/segwit, AuxPoW where the coin has it) serialised by the model and decoded in-process by BlockchainRead::read_block; every field, block hash, txids, witness-stripped re-serialisation, consumed length and merkle root compared.", vec![])
        }
        "C12" => {
            let n = if q { 600 } else { 20_000 };
            eng.explore("auxpow-roundtrip", scaled(n, a), move || block_strategy(tier, true), check_block_case);
            ("E2: blocks with generated AuxPoW sections and versions around the threshold decoded in-process; the section must be consumed exactly (consumed length == stored length) and hash / txs must equal the model.", vec![])
        }
        "C09" => {
            let n = if q { 3000 } else { 100_000 };
            eng.explore("merkle-root", scaled(n, a), || (prop_oneof![40 => 1u32..40, 20 => 40u32..600, 10 => prop_oneof![Just(255u32), Just(256u32), Just(257u32), Just(1023u32), Just(1025u32)], 1 => prop_oneof![Just(65_535u32), Just(65_536u32), Just(65_537u32), Just(131_073u32)]], any::<u32>()).prop_map(|(n, seed)| MerkleCase { n, seed }).boxed(), check_merkle);
            ("E2: utils::merkle_root on 1..1025 generated leaves and on 65535 / 65536 / 65537 / 131073 leaves (tree depths beyond 16) vs the reference Bitcoin merkle root (odd levels duplicate their last hash).", vec![])
        }
        "C11" => {
            let n = if q { 200_000 } else { 1_000_000 };
            eng.explore("xorreader-state-machine", scaled(n, a), xor_strategy, check_xor);
            ("E2 (stateful): generated op lists [SeekStart | ReadExact | ReadU32 | Read] on XorReader<seek_bufread::BufReader<Cursor>> with generated key (none, 1..64 bytes, and longer ones up to 70 001 bytes: beyond the 32 KiB buffer), buffer capacity (1..40000) and file length, against a plain array model; bytes and positions compared after every op. Non-trivial = a backward seek with a multi-byte key.", vec![])
        }
        "C15" => {
            let n = if q { 100_000 } else { 1_000_000 };
            eng.explore("get_mean", scaled(n, a), || prop_oneof![3 => proptest::collection::vec(any::<u32>(), 0..40), 2 => proptest::collection::vec(0u32..2_000_000, 0..200), 1 => proptest::collection::vec(prop_oneof![Just(u32::MAX), Just(4_000_000_000u32), Just(1u32)], 2..12), 1 => proptest::collection::vec(900_000u32..1_100_000, 4200..4600)].prop_map(|v| MeanCase { v }).boxed(), check_mean);
            ("E2: utils::get_mean on generated u32 vectors incl. sums beyond 2^32 (few huge samples; thousands of ~1 MB block sizes) vs the exact u128 mean.", vec![])
        }
        "C13" => {
            let n = if q { 150 } else { 4_000 };
            eng.explore(
                "thread-pools",
                scaled(n, a),
                move || {
                    let mut cfg = gen::ChainCfg::new(tier, gen::ordinary_script(tier));
                    cfg.nblocks = (1usize..=2).boxed();
                    cfg.ntx = prop_oneof![3 => 16usize..80, 1 => 0usize..4].boxed();
                    cfg.tx.max_common = 8;
                    (gen::chain(&cfg), prop_oneof![Just(1u8), Just(2u8), Just(3u8), Just(8u8), Just(16u8), Just(64u8), Just(97u8), Just(200u8)]).prop_map(|(chain, threads)| PoolCase { chain, threads }).boxed()
                },
                check_pool,
            );
            ("E2: read_block + Block::new executed inside rayon pools of 1/2/3/8/16/64/97/200 threads, three repetitions per block; order of transactions and of evaluated outputs compared with the sequential model.", vec![])
        }
        _ => ("", vec![]),
    }
}

fn replay(id: &str, part: &str, case: serde_json::Value) -> Option<Verdict> {
    Some(match (id, part) {
        ("C05", "two-substitution-neighbourhoods") | ("C06", "two-substitution-neighbourhoods") | ("C14", "two-substitution-neighbourhoods") => check_pair(&serde_json::from_value(case).ok()?, id),
        ("C05", _) | ("C06", _) | ("C16", _) | ("C14", _) => check_script_batch(&serde_json::from_value(case).ok()?, id),
        ("C01", _) | ("C12", _) => check_block_case(&serde_json::from_value(case).ok()?),
        ("C09", _) => check_merkle(&serde_json::from_value(case).ok()?),
        ("C11", _) => check_xor(&serde_json::from_value(case).ok()?),
        ("C15", _) => check_mean(&serde_json::from_value(case).ok()?),
        ("C13", _) => check_pool(&serde_json::from_value(case).ok()?),
        _ => return None,
    })
}

fn main() {
    let argv: Vec<String> = std::env::args().collect();
    if argv.len() < 3 {
        eprintln!("usage: vp-e2 check <ID> [--tier quick|thorough] [--seed N] [--out FILE] [--scale F] | vp-e2 replay <FILE>");
        std::process::exit(2);
    }
    // panics inside catch_unwind are expected to be reported through verdicts, not on stderr
    std::panic::set_hook(Box::new(|_| {}));
    // a logger at TRACE level that formats every record into nothing: the arguments of the repository's debug! / trace!
    // calls are then evaluated in-process too (code that only runs at -v / -vv is part of what the properties cover)
    struct Sink;
    impl log::Log for Sink {
        fn enabled(&self, _: &log::Metadata) -> bool {
            true
        }
        fn log(&self, r: &log::Record) {
            use std::io::Write;
            let _ = write!(std::io::sink(), "{}", r.args());
        }
        fn flush(&self) {}
    }
    if log::set_boxed_logger(Box::new(Sink)).is_ok() {
        log::set_max_level(log::LevelFilter::Trace);
    }
    if catch_unwind(vpmodel::self_test).is_err() {
        println!("INFRA model self test failed");
        std::process::exit(2);
    }
    match argv[1].as_str() {
        "check" => {
            let id = argv[2].clone();
            let mut a = Args { tier: Tier::Quick, seed: 0, out: PathBuf::from(format!("/verif/.cache/out/{}.e2.json", id)), scale: 1.0 };
            let mut i = 3;
            while i + 1 < argv.len() {
                match argv[i].as_str() {
                    "--tier" => a.tier = if argv[i + 1] == "thorough" { Tier::Thorough } else { Tier::Quick },
                    "--seed" => a.seed = argv[i + 1].parse().unwrap_or(0),
                    "--out" => a.out = PathBuf::from(&argv[i + 1]),
                    "--scale" => a.scale = argv[i + 1].parse().unwrap_or(1.0),
                    _ => {}
                }
                i += 2;
            }
            let shards = std::env::var("VP_SHARDS").ok().and_then(|s| s.parse().ok()).unwrap_or(16);
            let replay_dir = PathBuf::from(std::env::var("VP_REPLAY_DIR").unwrap_or_else(|_| "/verif/replays".into()));
            let mut eng = Engine::new(RunCfg { property: id.clone(), engine: "E2".into(), tier: a.tier, seed: a.seed, shards, replay_dir });
            // everything E2 calls is a pure in-process function that normally returns in microseconds:
            // a case that is still running after 30 seconds is reported with its input
            eng.hang_limit_s = Some(30);
            let hang_out = a.out.clone();
            *eng.on_hang.lock().unwrap() = Some(Box::new(move |e: &Engine| {
                e.finish(&hang_out, "E2 run aborted: one case did not return (see violations)", &[], "exploration");
            }));
            let (rule, _) = run_property(&id, &eng, &a);
            if rule.is_empty() {
                println!("INFRA E2 does not serve {}", id);
                std::process::exit(2);
            }
            let code = eng.finish(&a.out, rule, &["the repository's leaf modules are compiled into the harness unchanged (by path); private items are reachable only through E1"], "exploration");
            std::process::exit(code);
        }
        "replay" => {
            let text = std::fs::read_to_string(&argv[2]).expect("read replay file");
            let doc: serde_json::Value = serde_json::from_str(&text).expect("replay file is JSON");
            let id = doc["property"].as_str().unwrap_or("").to_string();
            let part = doc["part"].as_str().unwrap_or("").to_string();
            match replay(&id, &part, doc["case"].clone()) {
                Some(Verdict::Pass(_)) => {
                    println!("replay passes: property={} part={}", id, part);
                    std::process::exit(0)
                }
                Some(Verdict::Fail(m)) => {
                    println!("VIOLATION property={} replay={}", id, argv[2]);
                    println!("  reason: {}", m);
                    std::process::exit(1)
                }
                Some(Verdict::Infra(m)) => {
                    println!("INFRA {}", m);
                    std::process::exit(2)
                }
                None => {
                    println!("INFRA cannot replay {} {}", id, part);
                    std::process::exit(2)
                }
            }
        }
        _ => std::process::exit(2),
    }
}
