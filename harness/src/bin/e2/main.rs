//! E2: in-process engine. The repository's leaf modules (proto/*, parser/reader.rs,
//! parser/types.rs, common/*) are compiled into this binary by path (see build.rs); nothing in
//! /repo is modified. If this binary does not build against an edited /repo/src, the front end
//! reports E2 as skipped and E1 alone decides.
#[macro_use]
extern crate log;

include!(concat!(env!("OUT_DIR"), "/shim.rs"));

use crate::blockchain::parser::reader::{BlockchainRead, XorReader};
use crate::blockchain::parser::types::CoinType;
use crate::blockchain::proto::block::Block as RBlock;
use crate::blockchain::proto::script::eval_from_bytes;
use crate::blockchain::proto::ToRaw;
use proptest::prelude::*;
use serde::{Deserialize, Serialize};
use std::io::{Cursor, Read, Seek, SeekFrom};
use std::panic::{catch_unwind, AssertUnwindSafe};
use std::path::PathBuf;
use std::str::FromStr;
use vpmodel::chain::{Coin, ALL_COINS, FORK_COINS};
use vpmodel::engine::{Engine, Pass, RunCfg, Verdict};
use vpmodel::gen::{self, Tier, BS};
use vpmodel::hashes::{fnv64, hex};
use vpmodel::script::{btc_address_roundtrip, btc_expect, fork_expect, op_return_single_push, SType};
use vpmodel::spec::{hexvec, ChainSpec};

struct Args {
    tier: Tier,
    seed: u64,
    out: PathBuf,
    scale: f64,
}

fn scaled(n: u32, a: &Args) -> u32 {
    ((n as f64) * a.scale).ceil().max(1.0) as u32
}

fn panic_text(e: Box<dyn std::any::Any + Send>) -> String {
    if let Some(s) = e.downcast_ref::<&str>() {
        s.to_string()
    } else if let Some(s) = e.downcast_ref::<String>() {
        s.clone()
    } else {
        "panic".into()
    }
}

// ------------------------------------------------------------------------------------ scripts

#[derive(Clone, Debug, Serialize, Deserialize)]
struct ScriptBatch {
    coin: Coin,
    #[serde(with = "hexvec")]
    scripts: Vec<Vec<u8>>,
}

fn batch(coins: Vec<Coin>, script: BS<Vec<u8>>, n: usize) -> BS<ScriptBatch> {
    (proptest::sample::select(coins), proptest::collection::vec(script, 1..=n)).prop_map(|(coin, scripts)| ScriptBatch { coin, scripts }).boxed()
}

/// (type label, address, OP_RETURN payload) as reported by the tool
fn eval(coin: Coin, s: &[u8]) -> Result<(String, Option<String>, Option<String>), String> {
    let r = catch_unwind(AssertUnwindSafe(|| eval_from_bytes(s, coin.addr_version())));
    match r {
        Ok(e) => {
            let dbg = format!("{:?}", e.pattern);
            let (label, payload) = if dbg.starts_with("OpReturn(") {
                let p = match &e.pattern {
                    crate::blockchain::proto::script::ScriptPattern::OpReturn(p) => Some(p.clone()),
                    _ => None,
                };
                ("OpReturn(\"\")".to_string(), p)
            } else {
                (dbg, None)
            };
            Ok((label, e.address, payload))
        }
        Err(p) => Err(panic_text(p)),
    }
}

fn check_script_batch(b: &ScriptBatch, prop: &str) -> Verdict {
    let mut keys = Vec::new();
    let testnet = b.coin == Coin::Testnet3;
    for s in &b.scripts {
        let (label, addr, payload) = match eval(b.coin, s) {
            Ok(x) => x,
            Err(p) => return Verdict::Fail(format!("script evaluation panicked on {} for script {}: {}", b.coin.cli(), hex(s), p)),
        };
        let st = SType::from_report_name(&label);
        if b.coin.is_btc() {
            let e = btc_expect(s, testnet);
            if prop != "C14" {
                match st {
                    Some(t) if e.types.contains(&t) => {}
                    _ => return Verdict::Fail(format!("{}: script {} typed {} but the reference rules allow {:?}", b.coin.cli(), hex(s), label, e.types)),
                }
                if addr != e.address {
                    return Verdict::Fail(format!("{}: script {} ({}): address {:?}, reference {:?}", b.coin.cli(), hex(s), label, addr, e.address));
                }
                if let Some(a) = &addr {
                    if let Err(m) = btc_address_roundtrip(s, testnet, a) {
                        return Verdict::Fail(format!("{}: script {} address {}: {}", b.coin.cli(), hex(s), a, m));
                    }
                }
                if let Some(p) = op_return_single_push(s) {
                    // C16: payload of OP_RETURN + exactly one push
                    let want = String::from_utf8(p).unwrap_or_default();
                    if payload.as_deref() != Some(want.as_str()) {
                        return Verdict::Fail(format!("{}: OP_RETURN script {}: payload {:?}, expected {:?}", b.coin.cli(), hex(s), payload, want));
                    }
                }
            }
            if e.templateish {
                keys.push(fnv64(s));
            }
        } else {
            let e = fork_expect(s, b.coin.addr_version());
            if prop != "C14" {
                if st != Some(e.stype) {
                    return Verdict::Fail(format!("{}: script {} typed {} but its token sequence is {:?}", b.coin.cli(), hex(s), label, e.stype));
                }
                if addr != e.address {
                    return Verdict::Fail(format!("{}: script {} ({}): address {:?}, reference {:?}", b.coin.cli(), hex(s), label, addr, e.address));
                }
                if e.stype == SType::OpReturn && payload != e.payload {
                    return Verdict::Fail(format!("{}: OP_RETURN script {}: payload {:?}, expected {:?}", b.coin.cli(), hex(s), payload, e.payload));
                }
            }
            if e.interesting {
                keys.push(fnv64(s));
            }
        }
        if prop == "C14" && st.is_none() {
            return Verdict::Fail(format!("{}: script {} evaluates to {}", b.coin.cli(), hex(s), label));
        }
    }
    let sample = serde_json::json!({"coin": b.coin.cli(), "scripts": b.scripts.iter().take(3).map(|s| hex(&s[..s.len().min(60)])).collect::<Vec<_>>()});
    Verdict::Pass(Pass { nontrivial: !keys.is_empty(), key: fnv64(format!("{:?}", keys).as_bytes()), classes: vec![format!("coin={}", b.coin.cli())], known: vec![], sub_evals: b.scripts.len() as u64, sample: Some(sample), extra_keys: keys })
}

// ------------------------------------------------------------------------------------ blocks

#[derive(Clone, Debug, Serialize, Deserialize)]
struct BlockCase {
    chain: ChainSpec,
}

fn cointype(c: Coin) -> CoinType {
    CoinType::from_str(c.cli()).expect("coin known to the tool")
}

fn check_block_case(c: &BlockCase) -> Verdict {
    let built = c.chain.build();
    let ct = cointype(built.coin);
    let mut n = 0;
    for (h, b) in &built.blocks {
        let bytes = b.ser();
        let r = catch_unwind(AssertUnwindSafe(|| {
            let mut cur = Cursor::new(bytes.clone());
            let blk = cur.read_block(bytes.len() as u32, &ct);
            (blk, cur.position())
        }));
        let (blk, pos) = match r {
            Ok((Ok(b), p)) => (b, p),
            Ok((Err(e), _)) => return Verdict::Fail(format!("read_block failed on a well-formed block at height {}: {}", h, e)),
            Err(p) => return Verdict::Fail(format!("read_block panicked at height {}: {}", h, panic_text(p))),
        };
        if let Err(m) = compare_block(b, &blk, pos, bytes.len()) {
            return Verdict::Fail(format!("block at height {} ({}): {}", h, built.coin.cli(), m));
        }
        n += 1;
    }
    let aux = built.blocks.iter().filter(|(_, b)| b.auxpow.is_some()).count();
    let seg = built.blocks.iter().any(|(_, b)| b.txs.iter().any(|t| t.segwit));
    let mut classes = vec![format!("coin={}", built.coin.cli())];
    if aux > 0 {
        classes.push("auxpow".into());
    }
    if seg {
        classes.push("segwit".into());
    }
    let sample = serde_json::json!({"coin": built.coin.cli(), "blocks": built.blocks.len(), "with_auxpow": aux, "segwit": seg});
    Verdict::Pass(Pass { nontrivial: aux > 0 || seg || built.blocks.iter().any(|(_, b)| b.txs.len() > 1), key: fnv64(serde_json::to_string(c).unwrap_or_default().as_bytes()), classes, known: vec![], sub_evals: n, sample: Some(sample), extra_keys: vec![] })
}

fn compare_block(m: &vpmodel::chain::Block, r: &RBlock, pos: u64, len: usize) -> Result<(), String> {
    use bitcoin::hashes::Hash;
    if pos as usize != len {
        return Err(format!("reader consumed {} of {} bytes", pos, len));
    }
    if r.header.hash.to_byte_array() != m.hash() {
        return Err("block hash differs from double-SHA256 of the 80-byte header".into());
    }
    let hv = &r.header.value;
    if (hv.version, hv.timestamp, hv.bits, hv.nonce) != (m.version, m.time, m.bits, m.nonce) || hv.prev_hash.to_byte_array() != m.prev || hv.merkle_root.to_byte_array() != m.merkle {
        return Err("header fields differ".into());
    }
    if r.aux_pow_extension.is_some() != m.auxpow.is_some() {
        return Err(format!("AuxPoW section {} but the block {} one", if r.aux_pow_extension.is_some() { "decoded" } else { "not decoded" }, if m.auxpow.is_some() { "has" } else { "has not" }));
    }
    if r.tx_count.value != m.txs.len() as u64 || r.txs.len() != m.txs.len() {
        return Err(format!("tx count {} / {} txs decoded, block has {}", r.tx_count.value, r.txs.len(), m.txs.len()));
    }
    for (i, (rt, mt)) in r.txs.iter().zip(m.txs.iter()).enumerate() {
        if rt.hash.to_byte_array() != mt.txid() {
            return Err(format!("txid of tx {} differs from double-SHA256 of the witness-stripped serialisation", i));
        }
        if rt.value.to_bytes() != mt.ser_stripped() {
            return Err(format!("re-serialisation of tx {} differs from the witness-stripped bytes", i));
        }
        let v = &rt.value;
        if (v.version, v.locktime) != (mt.version, mt.locktime) || v.inputs.len() != mt.inputs.len() || v.outputs.len() != mt.outputs.len() || v.in_count.value != mt.inputs.len() as u64 || v.out_count.value != mt.outputs.len() as u64 {
            return Err(format!("tx {}: version/locktime/counts differ", i));
        }
        for (k, (ri, mi)) in v.inputs.iter().zip(mt.inputs.iter()).enumerate() {
            if ri.outpoint.txid.to_byte_array() != mi.prev_txid || ri.outpoint.index != mi.prev_index || ri.script_sig != mi.script_sig || ri.seq_no != mi.sequence {
                return Err(format!("tx {} input {} differs", i, k));
            }
        }
        for (k, (ro, mo)) in v.outputs.iter().zip(mt.outputs.iter()).enumerate() {
            if ro.out.value != mo.value || ro.out.script_pubkey != mo.script {
                return Err(format!("tx {} output {} differs", i, k));
            }
        }
    }
    if r.compute_merkle_root().to_byte_array() != m.merkle {
        return Err("computed merkle root differs from the reference merkle root".into());
    }
    Ok(())
}

// ------------------------------------------------------------------------------------ merkle

#[derive(Clone, Debug, Serialize, Deserialize)]
struct MerkleCase {
    n: u16,
    seed: u32,
}

fn check_merkle(c: &MerkleCase) -> Verdict {
    use bitcoin::hashes::{sha256d, Hash};
    let n = (c.n as usize).max(1);
    let leaves: Vec<[u8; 32]> = (0..n).map(|i| vpmodel::hashes::sha256(&[(c.seed as u64 + i as u64).to_le_bytes().as_slice(), b"leaf"].concat())).collect();
    let want = vpmodel::chain::merkle_root(&leaves);
    let r = catch_unwind(|| crate::common::utils::merkle_root(leaves.iter().map(|l| sha256d::Hash::from_byte_array(*l)).collect()));
    match r {
        Ok(g) if g.to_byte_array() == want => {}
        Ok(_) => return Verdict::Fail(format!("merkle_root of {} leaves differs from the Bitcoin merkle root", n)),
        Err(p) => return Verdict::Fail(format!("merkle_root panicked on {} leaves: {}", n, panic_text(p))),
    }
    let class = if n.is_power_of_two() { "2^k" } else if (n + 1).is_power_of_two() || (n - 1).is_power_of_two() { "2^k+-1" } else if n % 2 == 1 { "odd" } else { "even" };
    Verdict::Pass(Pass { nontrivial: n >= 3, key: n as u64, classes: vec![format!("shape={}", class)], known: vec![], sub_evals: 1, sample: Some(serde_json::json!({"leaves": n})), extra_keys: vec![] })
}

// ------------------------------------------------------------------------------------ xor reader

#[derive(Clone, Debug, Serialize, Deserialize)]
enum Op {
    SeekStart(u32),
    ReadExact(u16),
    ReadU32,
    Read(u16),
}

#[derive(Clone, Debug, Serialize, Deserialize)]
struct XorCase {
    len: u32,
    #[serde(with = "vpmodel::spec::hexser")]
    key: Vec<u8>,
    bufcap: u16,
    ops: Vec<Op>,
}

fn xor_strategy() -> BS<XorCase> {
    let op = prop_oneof![3 => any::<u32>().prop_map(Op::SeekStart), 4 => (0u16..5000).prop_map(Op::ReadExact), 2 => Just(Op::ReadU32), 2 => (0u16..40000).prop_map(Op::Read)];
    (1000u32..120_000, proptest::option::weighted(0.85, prop_oneof![4 => Just(8usize), 1 => Just(1usize), 3 => 1usize..=64].prop_flat_map(|n| proptest::collection::vec(any::<u8>(), n))), prop_oneof![3 => Just(32768u16), 2 => 1u16..200, 1 => 200u16..40000], proptest::collection::vec(op, 1..60))
        .prop_map(|(len, key, bufcap, ops)| XorCase { len, key: key.unwrap_or_default(), bufcap, ops })
        .boxed()
}

fn check_xor(c: &XorCase) -> Verdict {
    // plaintext p[i] = f(i); disk bytes = p[i] ^ key[i % keylen]
    let plain: Vec<u8> = (0..c.len as usize).map(|i| ((i * 131) ^ (i >> 8) ^ 0x5a) as u8).collect();
    let disk: Vec<u8> = if c.key.is_empty() { plain.clone() } else { plain.iter().enumerate().map(|(i, b)| b ^ c.key[i % c.key.len()]).collect() };
    let inner = seek_bufread::BufReader::with_capacity(c.bufcap.max(1) as usize, Cursor::new(disk));
    let mut rd = XorReader::new(inner, if c.key.is_empty() { None } else { Some(c.key.clone()) });
    let mut pos: usize = 0;
    let mut back = false;
    let mut cross = false;
    for (k, op) in c.ops.iter().enumerate() {
        let r = catch_unwind(AssertUnwindSafe(|| -> Result<(), String> {
            match op {
                Op::SeekStart(p) => {
                    let p = (*p as u64 * (c.len as u64 + 1) >> 32) as usize;
                    if p < pos {
                        back = true;
                    }
                    if (p as i64 - pos as i64).unsigned_abs() as usize > c.bufcap as usize {
                        cross = true;
                    }
                    let got = rd.seek(SeekFrom::Start(p as u64)).map_err(|e| e.to_string())?;
                    if got != p as u64 {
                        return Err(format!("seek to {} returned {}", p, got));
                    }
                    pos = p;
                }
                Op::ReadExact(n) => {
                    let n = (*n as usize).min(plain.len() - pos);
                    let mut buf = vec![0u8; n];
                    rd.read_exact(&mut buf).map_err(|e| e.to_string())?;
                    if buf != plain[pos..pos + n] {
                        let i = buf.iter().zip(&plain[pos..pos + n]).position(|(a, b)| a != b).unwrap();
                        return Err(format!("read_exact({}) at offset {}: byte {} decodes wrongly", n, pos, pos + i));
                    }
                    pos += n;
                }
                Op::ReadU32 => {
                    if plain.len() - pos >= 4 {
                        use byteorder::{LittleEndian, ReadBytesExt};
                        let v = rd.read_u32::<LittleEndian>().map_err(|e| e.to_string())?;
                        let w = u32::from_le_bytes([plain[pos], plain[pos + 1], plain[pos + 2], plain[pos + 3]]);
                        if v != w {
                            return Err(format!("read_u32 at offset {}: got {:#x}, expected {:#x}", pos, v, w));
                        }
                        pos += 4;
                    }
                }
                Op::Read(n) => {
                    let mut buf = vec![0u8; *n as usize];
                    let got = rd.read(&mut buf).map_err(|e| e.to_string())?;
                    if got > plain.len() - pos || buf[..got] != plain[pos..pos + got] {
                        return Err(format!("read({}) at offset {} returned {} wrongly decoded bytes", n, pos, got));
                    }
                    pos += got;
                }
            }
            Ok(())
        }));
        match r {
            Ok(Ok(())) => {}
            Ok(Err(m)) => return Verdict::Fail(format!("XorReader (key length {}, buffer {}), op #{} {:?}: {}", c.key.len(), c.bufcap, k, op, m)),
            Err(p) => return Verdict::Fail(format!("XorReader panicked at op #{} {:?}: {}", k, op, panic_text(p))),
        }
    }
    let mut classes = vec![format!("keylen={}", match c.key.len() { 0 => "none", 1 => "1", 8 => "8", 2..=7 => "2-7", _ => "9-64" })];
    if back {
        classes.push("backward-seek".into());
    }
    if cross {
        classes.push("seek-beyond-buffer".into());
    }
    Verdict::Pass(Pass { nontrivial: back && !c.key.is_empty() && c.key.len() != 1, key: fnv64(serde_json::to_string(c).unwrap_or_default().as_bytes()), classes, known: vec![], sub_evals: c.ops.len() as u64, sample: Some(serde_json::json!({"key_len": c.key.len(), "buffer": c.bufcap, "ops": c.ops.iter().take(6).map(|o| format!("{:?}", o)).collect::<Vec<_>>()})), extra_keys: vec![] })
}

// ------------------------------------------------------------------------------------ get_mean

#[derive(Clone, Debug, Serialize, Deserialize)]
struct MeanCase {
    v: Vec<u32>,
}

fn check_mean(c: &MeanCase) -> Verdict {
    let r = catch_unwind(|| crate::common::utils::get_mean(&c.v));
    let sum: u128 = c.v.iter().map(|x| *x as u128).sum();
    match r {
        Ok(g) => {
            if !c.v.is_empty() {
                let exact = sum as f64 / c.v.len() as f64;
                if (g - exact).abs() > 1e-9 * exact.abs() + 1e-9 {
                    return Verdict::Fail(format!("get_mean of {} samples (sum {}) returned {}, exact mean is {}", c.v.len(), sum, g, exact));
                }
            }
        }
        Err(p) => return Verdict::Fail(format!("get_mean panicked on {} samples with sum {}: {}", c.v.len(), sum, panic_text(p))),
    }
    let big = sum > u32::MAX as u128;
    Verdict::Pass(Pass { nontrivial: big, key: fnv64(format!("{:?}", c.v).as_bytes()), classes: vec![format!("sum>2^32={}", big)], known: vec![], sub_evals: 1, sample: Some(serde_json::json!({"n": c.v.len(), "sum": sum.to_string()})), extra_keys: vec![] })
}

// ------------------------------------------------------------------------------------ thread pools

#[derive(Clone, Debug, Serialize, Deserialize)]
struct PoolCase {
    chain: ChainSpec,
    threads: u8,
}

fn check_pool(c: &PoolCase) -> Verdict {
    let built = c.chain.build();
    let ct = cointype(built.coin);
    let pool = match rayon::ThreadPoolBuilder::new().num_threads(c.threads.max(1) as usize).build() {
        Ok(p) => p,
        Err(e) => return Verdict::Infra(format!("cannot build a rayon pool: {}", e)),
    };
    let mut n = 0;
    for (h, b) in &built.blocks {
        let bytes = b.ser();
        for _rep in 0..3 {
            let r = pool.install(|| {
                let mut cur = Cursor::new(bytes.clone());
                cur.read_block(bytes.len() as u32, &ct).map_err(|e| e.to_string())
            });
            let blk = match r {
                Ok(b) => b,
                Err(e) => return Verdict::Fail(format!("read_block failed at height {}: {}", h, e)),
            };
            if let Err(m) = compare_block(b, &blk, bytes.len() as u64, bytes.len()) {
                return Verdict::Fail(format!("with a pool of {} threads, block at height {}: {}", c.threads, h, m));
            }
            // evaluated outputs must line up with the raw outputs (order of the inner collect)
            for (rt, mt) in blk.txs.iter().zip(b.txs.iter()) {
                for (ro, mo) in rt.value.outputs.iter().zip(mt.outputs.iter()) {
                    let e = vpmodel::script::expect_for(built.coin, &mo.script);
                    if ro.script.address != e.address {
                        return Verdict::Fail(format!("with a pool of {} threads an output's evaluated address does not belong to its script", c.threads));
                    }
                }
            }
            n += 1;
        }
    }
    let maxtx = built.blocks.iter().map(|(_, b)| b.txs.len()).max().unwrap_or(0);
    Verdict::Pass(Pass { nontrivial: maxtx >= 16 && c.threads >= 2, key: fnv64(serde_json::to_string(c).unwrap_or_default().as_bytes()), classes: vec![format!("threads={}", c.threads)], known: vec![], sub_evals: n, sample: Some(serde_json::json!({"threads": c.threads, "max_txs": maxtx})), extra_keys: vec![] })
}

// ------------------------------------------------------------------------------------ driver

fn block_strategy(tier: Tier, auxpow_only: bool) -> BS<BlockCase> {
    let mut cfg = gen::ChainCfg::new(tier, gen::ordinary_script(tier));
    cfg.tx.big_counts = true;
    cfg.tx.max_value = u64::MAX;
    cfg.nblocks = (1usize..=3).boxed();
    cfg.ntx = prop_oneof![6 => 0usize..4, 1 => Just(0xfcusize), 1 => Just(0xfdusize)].boxed();
    if auxpow_only {
        cfg.coin = prop_oneof![4 => Just(Coin::Namecoin), 4 => Just(Coin::Dogecoin), 1 => gen::any_coin()].boxed();
    }
    gen::chain(&cfg).prop_map(|chain| BlockCase { chain }).boxed()
}

fn run_property(id: &str, eng: &Engine, a: &Args) -> (&'static str, Vec<&'static str>) {
    let tier = a.tier;
    let q = tier == Tier::Quick;
    match id {
        "C05" => {
            let n = if q { 2400 } else { 80_000 };
            eng.explore("per-script", scaled(n, a), move || batch(vec![Coin::Bitcoin, Coin::Testnet3], gen::any_script(tier), 256), |b| check_script_batch(b, "C05"));
            ("E2: batches of up to 256 scripts from the full grammar evaluated in-process by eval_from_bytes(bytes, 0x00|0x6f); each verdict (type, address, OP_RETURN payload) compared with the three-valued reference classifier and the address round-trip decoder. Non-trivial script = template / near miss / witness lookalike; distinct by script bytes.", vec![])
        }
        "C06" => {
            let n = if q { 2400 } else { 80_000 };
            eng.explore("per-script", scaled(n, a), move || batch(FORK_COINS.to_vec(), prop_oneof![4 => gen::any_script(tier), 3 => gen::template_any_push(tier), 2 => gen::mutated_template(tier)].boxed(), 256), |b| check_script_batch(b, "C06"));
            ("E2: batches of up to 256 scripts evaluated in-process with each fork coin's version byte; type, address and OP_RETURN payload compared with the strict reference tokeniser/template model. Non-trivial = contains PUSHDATA/NOP or is a template; distinct by script bytes.", vec![])
        }
        "C16" => {
            let n = if q { 1600 } else { 20_000 };
            eng.explore("payload-extraction", scaled(n, a), move || batch(ALL_COINS.to_vec(), gen::c16_script(tier), 256), |b| check_script_batch(b, "C16"));
            ("E2: OP_RETURN single-push scripts in every push encoding and payload class evaluated in-process on all 8 coins; extracted payload compared with the pushed bytes (valid UTF-8 only on bitcoin/testnet3, lossy on fork coins).", vec![])
        }
        "C14" => {
            let n = if q { 4000 } else { 200_000 };
            eng.explore("totality", scaled(n, a), move || batch(ALL_COINS.to_vec(), prop_oneof![3 => gen::any_script(tier), 2 => gen::many_pushes(tier), 2 => gen::token_script(tier), 1 => gen::raw_script(tier), 1 => gen::leading_opcode(tier)].boxed(), 256), |b| check_script_batch(b, "C14"));
            ("E2: catch_unwind around eval_from_bytes for batches of hostile scripts (truncated pushes, huge PUSHDATA4, all leading opcodes, hundreds to thousands of pushes, raw bytes) on all 8 coins, debug assertions and overflow checks on; any panic or Error(..) verdict is a violation.", vec![])
        }
        "C01" => {
            let n = if q { 600 } else { 60_000 };
            eng.explore("read_block-roundtrip", scaled(n, a), move || block_strategy(tier, false), check_block_case);
            ("E2: generated blocks (CompactSize boundary classes, legacy/segwit, AuxPoW where the coin has it) serialised by the model and decoded in-process by BlockchainRead::read_block; every field, block hash, txids, witness-stripped re-serialisation, consumed length and merkle root compared.", vec![])
        }
        "C12" => {
            let n = if q { 600 } else { 60_000 };
            eng.explore("auxpow-roundtrip", scaled(n, a), move || block_strategy(tier, true), check_block_case);
            ("E2: blocks with generated AuxPoW sections and versions around the threshold decoded in-process; the section must be consumed exactly (consumed length == stored length) and hash / txs must equal the model.", vec![])
        }
        "C09" => {
            let n = if q { 3000 } else { 100_000 };
            eng.explore("merkle-root", scaled(n, a), || (prop_oneof![4 => 1u16..40, 2 => 40u16..600, 1 => prop_oneof![Just(255u16), Just(256u16), Just(257u16), Just(1023u16), Just(1025u16)]], any::<u32>()).prop_map(|(n, seed)| MerkleCase { n, seed }).boxed(), check_merkle);
            ("E2: utils::merkle_root on 1..1025 generated leaves vs the reference Bitcoin merkle root (odd levels duplicate their last hash).", vec![])
        }
        "C11" => {
            let n = if q { 200_000 } else { 1_000_000 };
            eng.explore("xorreader-state-machine", scaled(n, a), xor_strategy, check_xor);
            ("E2 (stateful): generated op lists [SeekStart | ReadExact | ReadU32 | Read] on XorReader<seek_bufread::BufReader<Cursor>> with generated key (none, 1..64 bytes), buffer capacity (1..40000) and file length, against a plain array model; bytes and positions compared after every op. Non-trivial = a backward seek with a multi-byte key.", vec![])
        }
        "C15" => {
            let n = if q { 100_000 } else { 1_000_000 };
            eng.explore("get_mean", scaled(n, a), || prop_oneof![3 => proptest::collection::vec(any::<u32>(), 0..40), 2 => proptest::collection::vec(0u32..2_000_000, 0..200), 1 => proptest::collection::vec(prop_oneof![Just(u32::MAX), Just(4_000_000_000u32), Just(1u32)], 2..12), 1 => proptest::collection::vec(900_000u32..1_100_000, 4200..4600)].prop_map(|v| MeanCase { v }).boxed(), check_mean);
            ("E2: utils::get_mean on generated u32 vectors incl. sums beyond 2^32 (few huge samples; thousands of ~1 MB block sizes) vs the exact u128 mean.", vec![])
        }
        "C13" => {
            let n = if q { 150 } else { 20_000 };
            eng.explore(
                "thread-pools",
                scaled(n, a),
                move || {
                    let mut cfg = gen::ChainCfg::new(tier, gen::ordinary_script(tier));
                    cfg.nblocks = (1usize..=2).boxed();
                    cfg.ntx = prop_oneof![3 => 16usize..80, 1 => 0usize..4].boxed();
                    cfg.tx.max_common = 8;
                    (gen::chain(&cfg), prop_oneof![Just(1u8), Just(2u8), Just(3u8), Just(8u8), Just(16u8), Just(64u8)]).prop_map(|(chain, threads)| PoolCase { chain, threads }).boxed()
                },
                check_pool,
            );
            ("E2: read_block + Block::new executed inside rayon pools of 1/2/3/8/16/64 threads, three repetitions per block; order of transactions and of evaluated outputs compared with the sequential model.", vec![])
        }
        _ => ("", vec![]),
    }
}

fn replay(id: &str, part: &str, case: serde_json::Value) -> Option<Verdict> {
    Some(match (id, part) {
        ("C05", _) | ("C06", _) | ("C16", _) | ("C14", _) => check_script_batch(&serde_json::from_value(case).ok()?, id),
        ("C01", _) | ("C12", _) => check_block_case(&serde_json::from_value(case).ok()?),
        ("C09", _) => check_merkle(&serde_json::from_value(case).ok()?),
        ("C11", _) => check_xor(&serde_json::from_value(case).ok()?),
        ("C15", _) => check_mean(&serde_json::from_value(case).ok()?),
        ("C13", _) => check_pool(&serde_json::from_value(case).ok()?),
        _ => return None,
    })
}

fn main() {
    let argv: Vec<String> = std::env::args().collect();
    if argv.len() < 3 {
        eprintln!("usage: vp-e2 check <ID> [--tier quick|thorough] [--seed N] [--out FILE] [--scale F] | vp-e2 replay <FILE>");
        std::process::exit(2);
    }
    // panics inside catch_unwind are expected to be reported through verdicts, not on stderr
    std::panic::set_hook(Box::new(|_| {}));
    if catch_unwind(vpmodel::self_test).is_err() {
        println!("INFRA model self test failed");
        std::process::exit(2);
    }
    match argv[1].as_str() {
        "check" => {
            let id = argv[2].clone();
            let mut a = Args { tier: Tier::Quick, seed: 0, out: PathBuf::from(format!("/verif/.cache/out/{}.e2.json", id)), scale: 1.0 };
            let mut i = 3;
            while i + 1 < argv.len() {
                match argv[i].as_str() {
                    "--tier" => a.tier = if argv[i + 1] == "thorough" { Tier::Thorough } else { Tier::Quick },
                    "--seed" => a.seed = argv[i + 1].parse().unwrap_or(0),
                    "--out" => a.out = PathBuf::from(&argv[i + 1]),
                    "--scale" => a.scale = argv[i + 1].parse().unwrap_or(1.0),
                    _ => {}
                }
                i += 2;
            }
            let shards = std::env::var("VP_SHARDS").ok().and_then(|s| s.parse().ok()).unwrap_or(16);
            let replay_dir = PathBuf::from(std::env::var("VP_REPLAY_DIR").unwrap_or_else(|_| "/verif/replays".into()));
            let eng = Engine::new(RunCfg { property: id.clone(), engine: "E2".into(), tier: a.tier, seed: a.seed, shards, replay_dir });
            let (rule, _) = run_property(&id, &eng, &a);
            if rule.is_empty() {
                println!("INFRA E2 does not serve {}", id);
                std::process::exit(2);
            }
            let code = eng.finish(&a.out, rule, &["the repository's leaf modules are compiled into the harness unchanged (by path); private items are reachable only through E1"], "exploration");
            std::process::exit(code);
        }
        "replay" => {
            let text = std::fs::read_to_string(&argv[2]).expect("read replay file");
            let doc: serde_json::Value = serde_json::from_str(&text).expect("replay file is JSON");
            let id = doc["property"].as_str().unwrap_or("").to_string();
            let part = doc["part"].as_str().unwrap_or("").to_string();
            match replay(&id, &part, doc["case"].clone()) {
                Some(Verdict::Pass(_)) => {
                    println!("replay passes: property={} part={}", id, part);
                    std::process::exit(0)
                }
                Some(Verdict::Fail(m)) => {
                    println!("VIOLATION property={} replay={}", id, argv[2]);
                    println!("  reason: {}", m);
                    std::process::exit(1)
                }
                Some(Verdict::Infra(m)) => {
                    println!("INFRA {}", m);
                    std::process::exit(2)
                }
                None => {
                    println!("INFRA cannot replay {} {}", id, part);
                    std::process::exit(2)
                }
            }
        }
        _ => std::process::exit(2),
    }
}
