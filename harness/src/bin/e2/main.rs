fn main(){}
