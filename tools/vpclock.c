/* LD_PRELOAD shim: shifts the wall clock (CLOCK_REALTIME, gettimeofday, time) of the process by
 * VP_CLOCK_OFFSET seconds. Used by the C13 check: the tool's result must not depend on when it runs.
 * Monotonic clocks are left alone (progress-line timing is unaffected). */
#define _GNU_SOURCE
#include <dlfcn.h>
#include <stdlib.h>
#include <sys/time.h>
#include <time.h>

static long long offset(void) {
    static int init = 0;
    static long long off = 0;
    if (!init) {
        const char *s = getenv("VP_CLOCK_OFFSET");
        off = s ? atoll(s) : 0;
        init = 1;
    }
    return off;
}

int clock_gettime(clockid_t id, struct timespec *ts) {
    static int (*real)(clockid_t, struct timespec *) = 0;
    if (!real) real = (int (*)(clockid_t, struct timespec *))dlsym(RTLD_NEXT, "clock_gettime");
    int r = real(id, ts);
    if (r == 0 && ts && (id == CLOCK_REALTIME || id == CLOCK_REALTIME_COARSE)) ts->tv_sec += offset();
    return r;
}

int gettimeofday(struct timeval *tv, void *tz) {
    static int (*real)(struct timeval *, void *) = 0;
    if (!real) real = (int (*)(struct timeval *, void *))dlsym(RTLD_NEXT, "gettimeofday");
    int r = real(tv, tz);
    if (r == 0 && tv) tv->tv_sec += offset();
    return r;
}

time_t time(time_t *t) {
    static time_t (*real)(time_t *) = 0;
    if (!real) real = (time_t (*)(time_t *))dlsym(RTLD_NEXT, "time");
    time_t r = real(0);
    if (r != (time_t)-1) r += offset();
    if (t) *t = r;
    return r;
}
