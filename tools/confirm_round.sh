#!/bin/bash
# Confirms one sub-agent change of a round: reads the DEMO line of notes.md and calls confirm_seed.sh accordingly.
# usage: tools/confirm_round.sh <round dir, e.g. /tmp/seed10> <property id, e.g. C05>
R=$1; ID=$2; SRC=$R/$ID-out
L=$(head -1 "$SRC/notes.md")
unset DEMO_AS_TEST DEMO_APPEND_TO DEMO_FILTER
case "$L" in
  "DEMO: append-to "*) set -- $L; export DEMO_APPEND_TO=$3 DEMO_FILTER=$5 ;;
  "DEMO: integration-test "*) set -- $L; export DEMO_AS_TEST=$3 ;;
  "DEMO: script"*) : ;;
  *) echo "unrecognised DEMO line: $L"; exit 2 ;;
esac
exec "$(dirname "$0")/confirm_seed.sh" "$ID" "$SRC"
