#!/bin/bash
# Runs the quick check of each property against the sub-agent worktree that holds its change (VP_REPO points the
# front end at the worktree; every trial has its own cache, evidence and replay directories, so trials run in parallel
# and /repo is not touched). usage: tools/try_round.sh <round dir> <jobs> <ID[:CHECK]>...
R=$1; J=$2; shift 2
one() {
  R=$1; spec=$2; ID=${spec%%:*}; CK=${spec##*:}
  WT=$R/$ID
  [ -d "$WT" ] || { echo "$ID: no worktree"; return; }
  export VP_REPO=$WT VP_CACHE=$R/cache${TAG}-$ID-$CK VP_EVIDENCE_DIR=$R/ev-$ID-$CK VP_REPLAY_DIR=$R/replays-$ID-$CK CARGO_NET_OFFLINE=true
  t0=$(date +%s)
  ${VP_DIR:-/verif}/vp check $CK --tier quick > $R/try${TAG}-$ID-$CK.log 2>&1; rc=$?
  [ -n "$KEEP_CACHE" ] || rm -rf "$VP_CACHE"
  echo "$ID check=$CK exit=$rc ($(( $(date +%s) - t0 ))s): $(grep -E '^(VIOLATION|INFRA|  reason)' $R/try${TAG}-$ID-$CK.log | head -2 | cut -c1-300 | tr '\n' ' ')"
}
export -f one
printf '%s\n' "$@" | xargs -P "$J" -I{} bash -c "one $R {}"
