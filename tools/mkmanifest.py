#!/usr/bin/env python3
"""Regenerates /verif/MANIFEST.json from the table below (kept in one place so that the manifest
stays valid and in step with what is built). Usage: tools/mkmanifest.py"""
import json
import os

ROOT = os.path.dirname(os.path.dirname(os.path.abspath(__file__)))

TRUST = ("rustc/std; SHA-256 and RIPEMD-160 compression functions of bitcoin_hashes (cross-checked against fixed vectors at start-up); "
         "rusty-leveldb used as index *writer*; proptest; the reference model in harness/src (hand-written from the property statements, "
         "self-tested on BIP vectors and on 7 real genesis blocks); the kernel's process, rlimit and ptrace semantics")

# id -> (technique, level category, level text, design ref, engines)
CHECKS = {
    "C01": ("differential PBT: generated chains -> data directory -> real binary, byte-exact comparison with an independent reference rendering (proptest, sharded, shrinking); in-process read_block round-trip; structure-aware libFuzzer target in the thorough tier",
            "exploration",
            "Random exploration of the input space named by the property (all 8 coins, CompactSize boundary classes, segwit, --verify on/off) against a complete reference model of csvdump's output. It shows the property on every generated chain and shrinks any counterexample to a replayable data directory; it cannot show absence of a violation outside the explored cases. Every chain is also run under generated environment dimensions (release or debug build of the tool, pipe or pseudo-terminal stdout, shifted wall clock, with or without -c for Bitcoin, dirty dump folder, verbosity, directory spelling, TZ).",
            "DESIGN.md section 7, C01"),
    "C02": ("bounded-exhaustive enumeration of (tip, --start, --end, callback) for small tips plus random ranges on chains up to 60 blocks and heights up to 10^7; oracle = reference model applied to exactly s..=min(e,T) and a model-free slice relation; chains longer than 2^16 blocks, base heights to 2^31, 1300 blk files under a descriptor limit, runs stopped across the 10-second progress tick (with and without --verify)",
            "exploration",
            "Exhaustive over every accepted option combination for tip heights up to 4 (quick) / 6 (thorough) for all five callbacks, random beyond; each run is compared with the model restricted to the expected heights, so an off-by-one at either bound, a clamp or a file-name error is caught on the smallest chains. Every chain is also run under generated environment dimensions (release or debug build of the tool, pipe or pseudo-terminal stdout, shifted wall clock, with or without -c for Bitcoin, dirty dump folder, verbosity, directory spelling, TZ).",
            "DESIGN.md section 7, C02"),
    "C03": ("metamorphic PBT: one logical chain written in generated physical layouts (files, order, gaps, decoys, holes > 4 GiB, file numbers to 2^64-1, VarInt widths, foreign keys); every layout's csvdump must equal the canonical layout's and the reference model; bounded-exhaustive VarInt width boundaries of height / file number / data offset; index write histories (overwritten, deleted records); indexes with a hole (prefix oracle); 700 unreferenced blk files under RLIMIT_NOFILE=64",
            "exploration",
            "Random exploration of the layout space with construction (not filtering) of every dimension the statement names; the oracle is both model-free (layout A == layout B) and model-based. Layouts only reachable through unnamed magic values are not covered. Every chain is also run under generated environment dimensions (release or debug build of the tool, pipe or pseudo-terminal stdout, shifted wall clock, with or without -c for Bitcoin, dirty dump folder, verbosity, directory spelling, TZ).",
            "DESIGN.md section 7, C03"),
    "C04": ("differential PBT over generated block indexes (active chain + header-only / stale / failed / reorged-out records, key order steered by nonce search) with a two-oracle scheme: correct expectation vs executable prediction of the open finding D7; ranges, --verify, generated status words of the active records, index write histories",
            "exploration",
            "Every generated index is decided exactly: output == active chain (pass), == the D7 prediction (KNOWN-FINDING, listed in known_findings.json), anything else is a violation - so a different break of the property is still reported and a future repair passes silently. Every chain is also run under generated environment dimensions (release or debug build of the tool, pipe or pseudo-terminal stdout, shifted wall clock, with or without -c for Bitcoin, dirty dump folder, verbosity, directory spelling, TZ).",
            "DESIGN.md sections 6 and 7, C04"),
    "C05": ("differential PBT of scripts from a grammar (templates, one-byte mutations, truncations, all leading opcodes, witness versions x lengths, m-of-n, tokens, raw bytes) against a three-valued reference classifier plus an independent address round-trip decoder; E1 through csvdump/simplestats, E2 per script, E3 libFuzzer; bounded-exhaustive in-process sets: every script of <= 2 bytes, complete one-edit neighbourhoods of 25 templates, two-substitution neighbourhoods of P2SH / P2WPKH",
            "exploration",
            "Hundreds of thousands (quick) to tens of millions (thorough) of scripts per run, each checked for type set and exact address, and every reported address decoded by the harness's own Base58Check/Bech32(m) decoder back to the script. Regions the statement leaves open are three-valued and never alarmed. Every chain is also run under generated environment dimensions (release or debug build of the tool, pipe or pseudo-terminal stdout, shifted wall clock, with or without -c for Bitcoin, dirty dump folder, verbosity, directory spelling, TZ).",
            "DESIGN.md section 7, C05"),
    "C06": ("differential PBT of scripts with every push form in every template slot against a strict reference tokeniser/template matcher with the published version bytes; E1 through csvdump/simplestats/opreturn on the six fork coins, E2 per script, E3 libFuzzer; bounded-exhaustive in-process sets: every script of <= 2 bytes, complete one-edit neighbourhoods of 25 templates, two-substitution neighbourhoods of P2SH / P2WPKH, on all six coins",
            "exploration",
            "Strict (two-valued) oracle, since the statement is explicit; exploration of the script grammar including zero-length/truncated pushes and NOP insertion, on all six coins. Every chain is also run under generated environment dimensions (release or debug build of the tool, pipe or pseudo-terminal stdout, shifted wall clock, with or without -c for Bitcoin, dirty dump folder, verbosity, directory spelling, TZ).",
            "DESIGN.md section 7, C06"),
    "C07": ("model-based PBT over spend histories: bounded-exhaustive enumeration of small histories plus random long ones (fan-in/out, same-block spends, duplicate txids, indices > 255, unknown outpoints), row-set equality with a reference UTXO map",
            "exploration",
            "All histories of <=2 non-coinbase transactions over <=2 blocks are enumerated (exhaustive for that sub-space), long random histories beyond; the oracle is exact set equality incl. header and duplicates. Every chain is also run under generated environment dimensions (release or debug build of the tool, pipe or pseudo-terminal stdout, shifted wall clock, with or without -c for Bitcoin, dirty dump folder, verbosity, directory spelling, TZ).",
            "DESIGN.md section 7, C07"),
    "C08": ("model-based PBT over spend histories with recurring addresses: reference aggregation (u128) plus the model-free relation balances == aggregate(unspentcsvdump) on the same directory and range",
            "exploration",
            "Two independent oracles per case (reference model and cross-callback relation), random histories with few keys so that multi-output and emptied addresses are common. Every chain is also run under generated environment dimensions (release or debug build of the tool, pipe or pseudo-terminal stdout, shifted wall clock, with or without -c for Bitcoin, dirty dump folder, verbosity, directory spelling, TZ).",
            "DESIGN.md section 7, C08"),
    "C09": ("PBT with fault operators: consistent chains over every merkle tree shape class must pass --verify unchanged; single-bit flips in tx bytes / merkle field / prev field, foreign blocks and wrong genesis blocks must fail at exactly that height when processed; thorough tier enumerates every bit of one block; re-linked block pairs, duplicate transactions (equal sibling nodes), merkle trees of depth 17, verified runs across the 10-second status tick",
            "exploration",
            "Both directions of the iff are generated: completeness on consistent chains (8 coins, any --start) and soundness on faulted ones, incl. faults outside the processed range that must not fail. Every chain is also run under generated environment dimensions (release or debug build of the tool, pipe or pseudo-terminal stdout, shifted wall clock, with or without -c for Bitcoin, dirty dump folder, verbosity, directory spelling, TZ).",
            "DESIGN.md section 7, C09"),
    "C10": ("enumerated fault injection on the real binary: input faults per height (remove/empty/truncate/offset past EOF), RLIMIT_FSIZE sweeps, strace-injected ENOSPC at the k-th dump-file write, SIGKILL at every dump-file syscall ordinal; plus random fault plans; injected write errors ENOSPC / EIO / EPIPE / EDQUOT / EROFS / EBADF, tables beyond the 4 MB buffer for all three callbacks, empty ranges, every early byte of a block as truncation point",
            "fault_enumeration",
            "For a fixed generated chain every height x input fault kind, 27 size limits, every early write ordinal and every dump-file syscall ordinal (kill point) is enumerated for the three file-producing callbacks, incl. a chain whose files exceed the 4 MB buffers; random plans extend this to other chains and ranges. Crash points are syscall-granular; fsync/power-loss ordering is outside the statement.",
            "DESIGN.md section 7, C10"),
    "C11": ("metamorphic PBT: plaintext directory vs its XOR-ed copy (generated keys of length 1..64, layouts forcing backward/forward seeks across the 32 KiB buffer and 4 GiB) for csvdump plus one generated callback; E2 stateful model test of XorReader over seek/read op lists; E3 libFuzzer; keys up to 70 001 bytes, xor.dat behind symlinks, keys that alias the network magic to another coin's (run without -c)",
            "exploration",
            "Whole-program equality between obfuscated and plain directories plus an in-process state-machine test of the reader against a plain array model. Every chain is also run under generated environment dimensions (release or debug build of the tool, pipe or pseudo-terminal stdout, shifted wall clock, with or without -c for Bitcoin, dirty dump folder, verbosity, directory spelling, TZ).",
            "DESIGN.md section 7, C11"),
    "C12": ("differential + metamorphic PBT: Namecoin/Dogecoin chains with generated AuxPoW sections and versions around the threshold vs the reference model (with --verify), and vs the same blocks stored without sections under a non-AuxPoW coin; six other coins as negative control",
            "exploration",
            "Random exploration of section shapes (legacy/segwit parent coinbase, branch lengths 0..40, masks) and of versions below/at/above the threshold, mixed in one chain. Every chain is also run under generated environment dimensions (release or debug build of the tool, pipe or pseudo-terminal stdout, shifted wall clock, with or without -c for Bitcoin, dirty dump folder, verbosity, directory spelling, TZ).",
            "DESIGN.md section 7, C12"),
    "C13": ("run-vs-run equality PBT: thread counts 1/2/3/8/16/64 and 64 threads pinned to one CPU under load; sequences of runs sharing a pre-seeded dump folder and one data directory with checksums of blk/xor files and a key/value dump of the index before and after; thread counts up to 300; every later run of a sequence at another date (LD_PRELOAD clock shim) ; directories with competing index records processed by six fresh processes",
            "exploration",
            "Schedules are sampled (thread counts, pinning, contention), not enumerated: reliable for order-destroying or state-carrying changes, weak for a break that needs one rare interleaving (DESIGN section 8). Every chain is also run under generated environment dimensions (release or debug build of the tool, pipe or pseudo-terminal stdout, shifted wall clock, with or without -c for Bitcoin, dirty dump folder, verbosity, directory spelling, TZ).",
            "DESIGN.md sections 7 and 8, C13"),
    "C14": ("totality PBT/fuzzing: hostile bytes placed in scriptPubKey / scriptSig / witness items of valid chains on 8 coins, all five callbacks must exit 0 and leave every non-derived row equal to the model (masked oracles); E2 catch_unwind over millions of scripts; E3 libFuzzer; --verify re-runs; bounded-exhaustive short scripts and template neighbourhoods on all 8 coins",
            "exploration",
            "Exploration of the hostile classes named by the statement (truncated pushes, huge PUSHDATA4, all leading opcodes, >255 pushes, 10-100 KB) with exit status and non-interference oracles in debug (overflow checks on) and, thorough tier, release builds. Every chain is also run under generated environment dimensions (release or debug build of the tool, pipe or pseudo-terminal stdout, shifted wall clock, with or without -c for Bitcoin, dirty dump folder, verbosity, directory spelling, TZ).",
            "DESIGN.md section 7, C14"),
    "C15": ("differential PBT: the simplestats report is parsed and every figure recomputed independently (exact integers, rational means with a half-ulp tolerance of the printed decimals), incl. non-monotonic timestamps, gap sums beyond 2^32, ties, halving boundaries; E2 get_mean vs u128 mean; chains beyond 2^16 blocks / transactions per block, sums beyond 2^64, halving boundaries up to 70 halvings",
            "exploration",
            "Every figure of the report is covered by an exact or toleranced comparison on each generated chain; the sum-of-sizes > 2^32 class is reached in-process through get_mean (E2) rather than with multi-GiB inputs. Every chain is also run under generated environment dimensions (release or debug build of the tool, pipe or pseudo-terminal stdout, shifted wall clock, with or without -c for Bitcoin, dirty dump folder, verbosity, directory spelling, TZ).",
            "DESIGN.md section 7, C15"),
    "C16": ("differential PBT: OP_RETURN single-push scripts in every push encoding x payload class (ASCII, multi-byte, invalid UTF-8, empty, newline) mixed with other scripts, exact stdout text vs model on 8 coins with ranges; E2 per-script payload extraction; outputs inside coinbase transactions, marker-prefixed payloads, heights of 10 digits, stdout on a pseudo terminal",
            "exploration",
            "Byte-exact comparison of the printed lines in chain order on generated chains; shapes the statement leaves open are not generated here. Every chain is also run under generated environment dimensions (release or debug build of the tool, pipe or pseudo-terminal stdout, shifted wall clock, with or without -c for Bitcoin, dirty dump folder, verbosity, directory spelling, TZ).",
            "DESIGN.md section 7, C16"),
    "C17": ("resource-bound PBT: RLIMIT_NOFILE calibrated by binary search on the single-file layout, multi-file layouts (disjoint/overlapping/interleaved spans, up to 300 files) must succeed under N0+(w-1); strace openat/close trace bounds the simultaneously open blk files by w; files ending in stale siblings, XOR-ed directories, verbosity",
            "exploration",
            "Two oracles per generated layout: success under the calibrated descriptor limit (model-derived slack w) and a trace invariant that closes the gap left by descriptors the start-up phase frees. Every chain is also run under generated environment dimensions (release or debug build of the tool, pipe or pseudo-terminal stdout, shifted wall clock, with or without -c for Bitcoin, dirty dump folder, verbosity, directory spelling, TZ).",
            "DESIGN.md section 7, C17"),
}

NOT_YET = "check under construction (see DESIGN.md section 7); will be claimed once built and validated"


def main():
    props = [json.loads(l) for l in open(os.path.join(ROOT, "properties.jsonl"))]
    checks = []
    na = []
    for p in props:
        pid = p["id"]
        if pid in CHECKS:
            tech, cat, text, ref = CHECKS[pid]
            checks.append({
                "property_id": pid,
                "quick_cmd": "./vp check %s --tier quick" % pid,
                "thorough_cmd": "./vp check %s --tier thorough" % pid,
                "evidence_file": "evidence/%s.json" % pid,
                "replay_cmd_template": "./vp replay {path}",
                "engine": "vp (E1 black-box differential engine; E2 in-process; E3 libFuzzer)",
                "level_claimed": {"category": cat, "text": text, "design_ref": ref},
                "level_note": TRUST,
                "technique": tech,
            })
        else:
            na.append({"property_id": pid, "reason": NOT_YET})
    m = {
        "version": 1,
        "setup_cmd": "./vp setup",
        "hooks": {
            "guard": "none",
            "enable": "no source hooks exist: E1 runs the unmodified binary built from /repo; E2/E3 compile /repo/src leaf modules into the harness by path (harness/build.rs), nothing in /repo is guarded",
            "baseline_off_cmd": "cd /repo && cargo test --workspace --no-fail-fast --offline",
            "source_commits": [],
            "add_only": True,
        },
        "engines": [
            {"name": "E1", "path": "harness/src/bin/e1", "serves_properties": [p["id"] for p in props], "kind_free_text": "black-box differential property-based testing of the real binary on generated data directories (proptest, 16 shards, seeded, shrinking, replay files)"},
            {"name": "E2", "path": "harness/src/bin/e2", "serves_properties": ["C01", "C05", "C06", "C09", "C11", "C12", "C13", "C14", "C15", "C16"], "kind_free_text": "in-process property-based testing of /repo/src leaf modules compiled by path (per-script verdicts, reader state machine)"},
            {"name": "E3", "path": "fuzz", "serves_properties": ["C01", "C05", "C06", "C11", "C12", "C14", "C16"], "kind_free_text": "coverage-guided libFuzzer targets with the semantic oracle inside (thorough tier; quick tier replays the saved corpus)"},
        ],
        "checks": checks,
        "not_applicable": na,
        "notes": "Exit codes: 0 held, 1 violation (VIOLATION line), 2 infrastructure trouble (inconclusive). Known findings are listed in known_findings.json.",
    }
    if not na:
        del m["not_applicable"]
        m["not_applicable"] = []
    json.dump(m, open(os.path.join(ROOT, "MANIFEST.json"), "w"), indent=1)
    print("MANIFEST.json: %d checks, %d not applicable" % (len(checks), len(na)))


if __name__ == "__main__":
    main()
