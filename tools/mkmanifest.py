#!/usr/bin/env python3
"""Regenerates /verif/MANIFEST.json from the table below (kept in one place so that the manifest
stays valid and in step with what is built). Usage: tools/mkmanifest.py"""
import json
import os

ROOT = os.path.dirname(os.path.dirname(os.path.abspath(__file__)))

TRUST = ("rustc/std; SHA-256 and RIPEMD-160 compression functions of bitcoin_hashes (cross-checked against fixed vectors at start-up); "
         "rusty-leveldb used as index *writer*; proptest; the reference model in harness/src (hand-written from the property statements, "
         "self-tested on BIP vectors and on 7 real genesis blocks); the kernel's process, rlimit and ptrace semantics")

# id -> (technique, level category, level text, design ref, engines)
CHECKS = {
    "C01": ("differential PBT: generated chains -> data directory -> real binary, byte-exact comparison with an independent reference rendering (proptest, sharded, shrinking); in-process read_block round-trip; structure-aware libFuzzer target in the thorough tier",
            "exploration",
            "Random exploration of the input space named by the property (all 8 coins, CompactSize boundary classes, segwit, --verify on/off) against a complete reference model of csvdump's output. It shows the property on every generated chain and shrinks any counterexample to a replayable data directory; it cannot show absence of a violation outside the explored cases.",
            "DESIGN.md section 7, C01"),
    "C02": ("bounded-exhaustive enumeration of (tip, --start, --end, callback) for small tips plus random ranges on chains up to 60 blocks and heights up to 10^7; oracle = reference model applied to exactly s..=min(e,T) and a model-free slice relation",
            "exploration",
            "Exhaustive over every accepted option combination for tip heights up to 4 (quick) / 6 (thorough) for all five callbacks, random beyond; each run is compared with the model restricted to the expected heights, so an off-by-one at either bound, a clamp or a file-name error is caught on the smallest chains.",
            "DESIGN.md section 7, C02"),
}

NOT_YET = "check under construction (see DESIGN.md section 7); will be claimed once built and validated"


def main():
    props = [json.loads(l) for l in open(os.path.join(ROOT, "properties.jsonl"))]
    checks = []
    na = []
    for p in props:
        pid = p["id"]
        if pid in CHECKS:
            tech, cat, text, ref = CHECKS[pid]
            checks.append({
                "property_id": pid,
                "quick_cmd": "./vp check %s --tier quick" % pid,
                "thorough_cmd": "./vp check %s --tier thorough" % pid,
                "evidence_file": "evidence/%s.json" % pid,
                "replay_cmd_template": "./vp replay {path}",
                "engine": "vp (E1 black-box differential engine; E2 in-process; E3 libFuzzer)",
                "level_claimed": {"category": cat, "text": text, "design_ref": ref},
                "level_note": TRUST,
                "technique": tech,
            })
        else:
            na.append({"property_id": pid, "reason": NOT_YET})
    m = {
        "version": 1,
        "setup_cmd": "./vp setup",
        "hooks": {
            "guard": "none",
            "enable": "no source hooks exist: E1 runs the unmodified binary built from /repo; E2/E3 compile /repo/src leaf modules into the harness by path (harness/build.rs), nothing in /repo is guarded",
            "baseline_off_cmd": "cd /repo && cargo test --workspace --no-fail-fast --offline",
            "source_commits": [],
            "add_only": True,
        },
        "engines": [
            {"name": "E1", "path": "harness/src/bin/e1", "serves_properties": [p["id"] for p in props], "kind_free_text": "black-box differential property-based testing of the real binary on generated data directories (proptest, 16 shards, seeded, shrinking, replay files)"},
            {"name": "E2", "path": "harness/src/bin/e2", "serves_properties": ["C01", "C05", "C06", "C09", "C11", "C12", "C13", "C14", "C15", "C16"], "kind_free_text": "in-process property-based testing of /repo/src leaf modules compiled by path (per-script verdicts, reader state machine)"},
            {"name": "E3", "path": "fuzz", "serves_properties": ["C01", "C05", "C06", "C11", "C12", "C14", "C16"], "kind_free_text": "coverage-guided libFuzzer targets with the semantic oracle inside (thorough tier; quick tier replays the saved corpus)"},
        ],
        "checks": checks,
        "not_applicable": na,
        "notes": "Exit codes: 0 held, 1 violation (VIOLATION line), 2 infrastructure trouble (inconclusive). Known findings are listed in known_findings.json.",
    }
    if not na:
        del m["not_applicable"]
        m["not_applicable"] = []
    json.dump(m, open(os.path.join(ROOT, "MANIFEST.json"), "w"), indent=1)
    print("MANIFEST.json: %d checks, %d not applicable" % (len(checks), len(na)))


if __name__ == "__main__":
    main()
