#!/bin/sh
# Confirms a seeded change in a fresh scratch worktree: the demonstration passes on the pristine
# tree, fails with the change, and the repository's 41 tests still pass with the change.
# usage: tools/confirm_seed.sh <ID> <dir with patch.diff + demo files>
ID=$1; SRC=$2
WT=/tmp/confirm/$ID
LOG=/tmp/confirm/$ID.log
rm -rf "$WT"; git -C /repo worktree prune
git -C /repo worktree add -f --detach "$WT" HEAD -q || exit 2
export CARGO_NET_OFFLINE=true
run_demo() {
  if [ -f "$SRC/demo.sh" ]; then
    # the scripts locate their files through dirname $0: keep the copy next to them
    sed "s#/tmp/seed[0-9]*/$ID-out#@@SRC@@#g; s#/tmp/seed[0-9]*/$ID#$WT#g; s#@@SRC@@#$SRC#g" "$SRC/demo.sh" > "$SRC/.demo_confirm.sh"
    (cd "$WT" && bash "$SRC/.demo_confirm.sh" $DEMO_ARG1 "$WT"); rc=$?; rm -f "$SRC/.demo_confirm.sh"; return $rc
  elif [ -n "$DEMO_AS_TEST" ]; then
    mkdir -p "$WT/tests" && cp "$SRC/demo_test.rs" "$WT/tests/$DEMO_AS_TEST.rs" && (cd "$WT" && cargo test --offline --target-dir "$WT/target" --test "$DEMO_AS_TEST"); rc=$?; rm -rf "$WT/tests"; return $rc
  elif [ -n "$DEMO_APPEND_TO" ]; then
    cp "$WT/$DEMO_APPEND_TO" "$WT/.append.bak"; cat "$SRC/demo_test.rs" >> "$WT/$DEMO_APPEND_TO"
    (cd "$WT" && cargo test --offline --target-dir "$WT/target" $DEMO_FILTER); rc=$?; cp "$WT/.append.bak" "$WT/$DEMO_APPEND_TO"; rm -f "$WT/.append.bak"; return $rc
  elif [ "$ID" = C01 ]; then
    mkdir -p "$WT/tests" && cp "$SRC/demo_c01.rs" "$WT/tests/demo_c01.rs" && (cd "$WT" && cargo test --offline --target-dir "$WT/target" --test demo_c01); rc=$?; rm -rf "$WT/tests"; return $rc
  elif [ "$ID" = C10 ]; then
    mkdir -p "$WT/tests" && cp "$SRC/demo_test.rs" "$WT/tests/c10_demo.rs" && (cd "$WT" && cargo test --offline --target-dir "$WT/target" --test c10_demo); rc=$?; rm -rf "$WT/tests"; return $rc
  elif [ "$ID" = C17 ]; then
    cp "$WT/src/blockchain/parser/chain.rs" "$WT/.chain.bak"; cat "$SRC/demo_test.rs" >> "$WT/src/blockchain/parser/chain.rs"
    (cd "$WT" && cargo test --offline --target-dir "$WT/target" demo_c17); rc=$?; cp "$WT/.chain.bak" "$WT/src/blockchain/parser/chain.rs"; return $rc
  else
    echo "no demo runner for $ID"; return 99
  fi
}
{
echo "== $ID pristine"; run_demo > "$LOG.pristine" 2>&1; P=$?; echo "demo on pristine tree: rc=$P"
git -C "$WT" apply "$SRC/patch.diff" || { echo "patch does not apply"; exit 2; }
echo "== $ID with change"; run_demo > "$LOG.changed" 2>&1; C=$?; echo "demo with the change: rc=$C"
git -C "$WT" checkout -q -- . ; git -C "$WT" clean -fdq -e target; git -C "$WT" apply "$SRC/patch.diff"
(cd "$WT" && cargo test --offline --target-dir "$WT/target" 2>&1 | grep "test result" ) > "$LOG.tests" 2>&1; cat "$LOG.tests"
if [ $P -eq 0 ] && [ $C -ne 0 ] && grep -q "ok. 41 passed" "$LOG.tests"; then echo "CONFIRMED $ID"; else echo "NOT-CONFIRMED $ID (pristine rc=$P changed rc=$C)"; fi
} > "$LOG" 2>&1
git -C /repo worktree remove --force "$WT"; git -C /repo worktree prune
tail -1 "$LOG"
