"""E3 driver: bounded libFuzzer campaigns (cargo-fuzz targets in /verif/fuzz) with the semantic
oracle inside the target. Called by ./vp; see DESIGN.md section 2 (E3).

quick tier   : replay of the committed seed inputs + a short fixed-work campaign (-runs=N, -seed)
thorough tier: long fixed-work campaigns
A crashing input makes the target write an E2 replay file (the decoded case) and abort.
"""
import glob
import os
import re
import shutil
import subprocess
import time

RUNS = {
    "quick": {"fuzz_scripts": 150_000, "fuzz_block": 40_000, "fuzz_xorseek": 60_000},
    "thorough": {"fuzz_scripts": 20_000_000, "fuzz_block": 1_000_000, "fuzz_xorseek": 600_000},
}
MAXLEN = {"fuzz_scripts": 700, "fuzz_block": 4096, "fuzz_xorseek": 512}


def run(pid, targets, tier, seed, root, cache, repo, env):
    env = dict(env)
    env["VP_REPO_SRC"] = os.path.join(repo, "src")
    env["CARGO_TARGET_DIR"] = os.path.join(cache, "fuzz-target")
    env["VP_FUZZ_PROPERTY"] = pid
    fuzz = os.path.join(root, "fuzz")
    t0 = time.time()
    p = subprocess.run(["cargo", "+nightly", "fuzz", "build", "-O", "--fuzz-dir", fuzz] + targets, cwd=fuzz, env=env, stdout=subprocess.PIPE, stderr=subprocess.STDOUT)
    if p.returncode != 0:
        return 0, None, "E3 skipped: fuzz targets do not build against the current /repo/src (%s)" % p.stdout.decode("utf-8", "replace")[-300:].replace("\n", " ")
    total_runs = 0
    corpus_total = 0
    parts = []
    samples = []
    violations = []
    for t in targets:
        binp = os.path.join(cache, "fuzz-target", "x86_64-unknown-linux-gnu", "release", t)
        work = os.path.join(cache, "fuzz-work", pid, t)
        shutil.rmtree(work, ignore_errors=True)
        os.makedirs(work)
        seeds = os.path.join(fuzz, "seeds", t)
        nseeds = 0
        if os.path.isdir(seeds):
            for f in glob.glob(os.path.join(seeds, "*")):
                shutil.copy(f, work)
                nseeds += 1
        runs = RUNS[tier][t]
        # libFuzzer's -seed=0 means "random": remap
        cmd = [binp, work, "-runs=%d" % runs, "-seed=%d" % (seed + 1), "-max_len=%d" % MAXLEN[t], "-len_control=0", "-artifact_prefix=%s/" % work, "-print_final_stats=1", "-timeout=30", "-rss_limit_mb=4096"]
        try:
            q = subprocess.run(cmd, env=env, stdout=subprocess.PIPE, stderr=subprocess.PIPE, timeout=6 * 3600)
        except subprocess.TimeoutExpired:
            return 2, None, "E3 watchdog expired on %s" % t
        err = q.stderr.decode("utf-8", "replace")
        m = re.search(r"stat::number_of_executed_units:\s*(\d+)", err)
        done = int(m.group(1)) if m else 0
        total_runs += done
        ncorp = len([f for f in os.listdir(work) if not f.startswith(("crash-", "oom-", "timeout-", "leak-"))])
        corpus_total += ncorp
        cov = re.findall(r"cov: (\d+) ft: (\d+)", err)
        parts.append({"part": t, "runs": done, "seed_inputs": nseeds, "corpus_after": ncorp, "cov": int(cov[-1][0]) if cov else None, "features": int(cov[-1][1]) if cov else None})
        for f in sorted(os.listdir(work))[:3]:
            try:
                with open(os.path.join(work, f), "rb") as fh:
                    samples.append({"target": t, "input_hex": fh.read(96).hex()})
            except OSError:
                pass
        if q.returncode != 0:
            mm = re.search(r"VIOLATION property=(\S+) replay=(\S+)", err)
            if mm:
                print("VIOLATION property=%s replay=%s" % (pid, mm.group(2)), flush=True)
                r = re.search(r"  reason: (.*)", err)
                if r:
                    print("  reason: " + r.group(1)[:1500], flush=True)
                violations.append({"replay": mm.group(2), "message": r.group(1) if r else ""})
                break
            if "libFuzzer: timeout" in err or "out-of-memory" in err:
                return 2, None, "E3: %s hit libFuzzer's timeout/rss limit (inconclusive)" % t
            # a crash without oracle message: a panic/abort inside the code under test that escaped catch_unwind
            arts = [f for f in os.listdir(work) if f.startswith("crash-")]
            keep = os.path.join(root, "replays", pid)
            os.makedirs(keep, exist_ok=True)
            dst = os.path.join(keep, "%s-%s.bin" % (t, arts[0][6:22] if arts else "unknown"))
            if arts:
                shutil.copy(os.path.join(work, arts[0]), dst)
            print("VIOLATION property=%s replay=%s" % (pid, dst), flush=True)
            print("  reason: fuzz target %s crashed: %s" % (t, err[-600:].replace("\n", " | ")), flush=True)
            violations.append({"replay": dst, "message": "crash in " + t})
            break
    doc = {
        "property_id": pid,
        "engine": "E3",
        "evaluations": total_runs,
        "sub_evaluations": 0,
        "distinct_nontrivial": corpus_total,
        "rule": "E3: coverage-guided libFuzzer campaigns (%s), fixed work (-runs, -seed=VERIF_SEED+1, fresh corpus seeded from fuzz/seeds), oracle inside the target (same per-item oracles as E2). Non-trivial/distinct = inputs libFuzzer kept because they reached new coverage features (corpus size)." % ", ".join(targets),
        "samples": samples[:4],
        "classes": {},
        "parts": parts,
        "known_findings_seen": {},
        "violations": violations,
        "assumptions": ["libFuzzer's -seed pins a campaign only approximately; the saved failing input / replay file is the reproducible unit"],
        "exhaustive_parts": [],
        "wall_s": time.time() - t0,
    }
    shutil.rmtree(os.path.join(cache, "fuzz-work", pid), ignore_errors=True)
    return (1 if violations else 0), doc, None
