#!/bin/bash
# Re-runs the quick check of the assigned property against every kept seeded change (scratch worktree of /repo HEAD +
# patch.diff, through VP_REPO; /repo is not touched). Prints one line per seed; a seed that is no longer reported is
# a regression of the machinery. usage: tools/retry_seeds.sh <scratch dir> <jobs> [seed ids...]
V=$(cd "$(dirname "$0")/.." && pwd)
R=$1; J=$2; shift 2
mkdir -p "$R"
ids=("$@"); [ ${#ids[@]} -gt 0 ] || ids=($(ls "$V/seeded" | grep -E '^C[0-9]+-[a-z][0-9]?$'))
one() {
  V=$1; R=$2; sid=$3; P=$(python3 -c "import json;print(json.load(open('$V/seeded/$sid/meta.json'))['property'])")
  WT=$R/$sid
  git -C /repo worktree add -f --detach "$WT" HEAD -q 2>/dev/null || { echo "$sid worktree failed"; return; }
  if ! git -C "$WT" apply "$V/seeded/$sid/patch.diff" 2>/dev/null; then echo "$sid PATCH-DOES-NOT-APPLY"; git -C /repo worktree remove --force "$WT"; return; fi
  export VP_REPO=$WT VP_CACHE=$R/cache-$sid VP_EVIDENCE_DIR=$R/ev-$sid VP_REPLAY_DIR=$R/replays-$sid CARGO_NET_OFFLINE=true
  t0=$(date +%s)
  "$V/vp" check $P --tier quick > "$R/$sid.log" 2>&1; rc=$?
  rm -rf "$VP_CACHE" "$VP_EVIDENCE_DIR" "$VP_REPLAY_DIR"; git -C /repo worktree remove --force "$WT"
  echo "$sid $P exit=$rc ($(( $(date +%s) - t0 ))s) $(grep -E '^(VIOLATION|INFRA)' "$R/$sid.log" | head -1 | cut -c1-120)"
}
export -f one
printf '%s\n' "${ids[@]}" | xargs -P "$J" -I{} bash -c "one $V $R {}"
git -C /repo worktree prune
