#!/usr/bin/env python3
"""Regenerates the table of section 13 of DESIGN.md from seeded/*/meta.json."""
import glob
import json
import os
import re

ROOT = os.path.dirname(os.path.dirname(os.path.abspath(__file__)))
rows = []
for f in sorted(glob.glob(os.path.join(ROOT, "seeded", "*", "meta.json"))):
    m = json.load(open(f))
    rows.append("| %s | %s | %s | %s | %s |" % (m["id"], m["property"], m["change"].replace("|", "/"), m["needs"].replace("|", "/"), m["caught_by"].replace("|", "/")))
table = "| seed | property | change | needs to manifest | caught by |\n|---|---|---|---|---|\n" + "\n".join(rows) + "\n"
p = os.path.join(ROOT, "DESIGN.md")
s = open(p).read()
if "SEED_TABLE_PLACEHOLDER" in s:
    s = s.replace("SEED_TABLE_PLACEHOLDER", "<!-- seed-table-begin -->\n" + table + "<!-- seed-table-end -->")
else:
    s = re.sub(r"<!-- seed-table-begin -->.*<!-- seed-table-end -->", "<!-- seed-table-begin -->\n" + table.replace("\\", "\\\\") + "<!-- seed-table-end -->", s, flags=re.S)
open(p, "w").write(s)
print("%d seeds" % len(rows))
