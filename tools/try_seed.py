#!/usr/bin/env python3
"""Applies a seeded change to /repo, runs the repository tests and the given checks, and always
restores /repo afterwards. Usage: tools/try_seed.py <patch.diff> <ID> [<ID>...] [--no-tests] [--tier T]"""
import os
import subprocess
import sys
import time

ROOT = os.path.dirname(os.path.dirname(os.path.abspath(__file__)))


def sh(cmd, **kw):
    return subprocess.run(cmd, stdout=subprocess.PIPE, stderr=subprocess.STDOUT, **kw)


def main():
    args = sys.argv[1:]
    tests = "--no-tests" not in args
    tier = "quick"
    if "--tier" in args:
        i = args.index("--tier")
        tier = args[i + 1]
        del args[i:i + 2]
    args = [a for a in args if a != "--no-tests"]
    patch, ids = args[0], args[1:]
    st = sh(["git", "-C", "/repo", "status", "--porcelain", "--untracked-files=no"]).stdout.decode().strip()
    if st:
        print("refusing: /repo has local changes:\n" + st)
        return 2
    r = sh(["git", "-C", "/repo", "apply", patch])
    if r.returncode != 0:
        print("patch does not apply:", r.stdout.decode())
        return 2
    results = {}
    try:
        env = dict(os.environ, CARGO_NET_OFFLINE="true", VP_REPLAY_DIR="/tmp/seed-replays", VP_EVIDENCE_DIR="/tmp/seed-evidence")
        if tests:
            t = sh(["cargo", "test", "--offline", "--manifest-path", "/repo/Cargo.toml", "--target-dir", os.path.join(ROOT, ".cache", "repo-target")], env=env)
            out = t.stdout.decode()
            ok = "test result: ok. 41 passed" in out
            print("repository tests with the change: %s" % ("41 passed" if ok else "NOT ok"))
            if not ok:
                print(out[-1500:])
            results["tests"] = ok
        for pid in ids:
            t0 = time.time()
            c = sh([os.path.join(ROOT, "vp"), "check", pid, "--tier", tier], env=env, cwd=ROOT)
            out = c.stdout.decode()
            first = [l for l in out.splitlines() if l.startswith(("VIOLATION", "INFRA", "OK ", "KNOWN", "  reason"))]
            print("%s: exit %d (%.0fs)" % (pid, c.returncode, time.time() - t0))
            for l in first[:6]:
                print("    " + l[:700])
            results[pid] = c.returncode
    finally:
        sh(["git", "-C", "/repo", "checkout", "--", "."])
        # rebuild the tool from the restored tree so that no later direct engine run uses the seeded binary
        sh(["cargo", "build", "--offline", "--manifest-path", "/repo/Cargo.toml", "--target-dir", os.path.join(ROOT, ".cache", "repo-target")], env=dict(os.environ, CARGO_NET_OFFLINE="true"))
        st = sh(["git", "-C", "/repo", "status", "--porcelain", "--untracked-files=no"]).stdout.decode().strip()
        print("/repo restored" if not st else "WARNING /repo not clean: " + st)
    return 0


if __name__ == "__main__":
    sys.exit(main())
