#!/usr/bin/env python3
"""Automatic sensitivity sweep: simple syntactic mutants of /repo/src (relational / arithmetic /
boolean operator swaps, constant tweaks, dropped statements), each applied in a scratch worktree.
A mutant is 'valid' if the crate builds and the 41 tests still pass; every valid mutant is then
checked with the quick tier (scaled) of the checks whose properties are anchored in the mutated
file. Output: one JSON line per mutant in <out>. Nothing touches /repo or /verif/.cache.

usage: tools/mutate.py <scratch-dir> <out.jsonl> [--max N] [--files a,b] [--scale F]
"""
import json
import os
import random
import re
import subprocess
import sys
import time

ROOT = os.path.dirname(os.path.dirname(os.path.abspath(__file__)))
FILES = {
    "src/blockchain/parser/mod.rs": ["C02"],
    "src/blockchain/parser/index.rs": ["C02", "C03", "C04", "C17"],
    "src/blockchain/parser/chain.rs": ["C03", "C09", "C17", "C10"],
    "src/blockchain/parser/blkfile.rs": ["C03", "C11", "C17"],
    "src/blockchain/parser/reader.rs": ["C01", "C12", "C11"],
    "src/blockchain/proto/varuint.rs": ["C01"],
    "src/blockchain/proto/tx.rs": ["C01", "C07", "C15"],
    "src/blockchain/proto/block.rs": ["C09", "C15"],
    "src/blockchain/proto/script/mod.rs": ["C05", "C16", "C14"],
    "src/blockchain/proto/script/custom.rs": ["C06", "C16", "C14"],
    "src/callbacks/csvdump.rs": ["C01", "C10"],
    "src/callbacks/unspentcsvdump.rs": ["C07", "C10"],
    "src/callbacks/balances.rs": ["C08", "C10"],
    "src/callbacks/common.rs": ["C07", "C08"],
    "src/callbacks/simplestats.rs": ["C15"],
    "src/callbacks/opreturn.rs": ["C16"],
    "src/common/utils.rs": ["C09", "C15"],
    "src/main.rs": ["C02", "C10"],
}
OPS = [
    (r"<=", "<"), (r"(?<![<=-])<(?![<=])", "<="), (r">=", ">"), (r"(?<![->=])>(?![>=])", ">="), (r"==", "!="), (r"!=", "=="),
    (r"&&", "||"), (r"\|\|", "&&"), (r"\+ 1\b", "+ 2"), (r"- 1\b", "- 0"), (r"\+= 1\b", "+= 2"), (r"- 4\b", "- 3"),
    (r"\b0xfd\b", "0xfc"), (r"\b0x80\b", "0x40"), (r"\b0x7F\b", "0x3F"), (r"<< 7", "<< 6"), (r"\b210000\b", "210001"),
    (r"\bu64::from\(", "u64::from("),
    # second operator set
    (r"\bas u32\b", "as u16"), (r"\bas u64\b", "as u32"), (r"\bas usize\b", "as u8 as usize"),
    (r"saturating_sub\(", "wrapping_sub("), (r"checked_sub\(", "checked_add("),
    (r"\.skip\(1\)", ".skip(2)"), (r"\.skip\(2\)", ".skip(1)"),
    (r"\btrue\b", "false"), (r"\bfalse\b", "true"),
    (r"\.min\(", ".max("), (r"\.max\(", ".min("),
    (r"\+= ", "= "), (r" \| ", " & "), (r" & ", " | "),
    (r"\b32\b", "31"), (r"\b36\b", "35"), (r"\b80\b", "79"), (r"\b8\b", "9"), (r"\b4\b", "5"), (r"\b2\b", "3"), (r"\b0\b", "1"), (r"\b1\b", "0"),
    (r"\.first\(\)", ".last()"), (r"\.last\(\)", ".first()"), (r"\.iter\(\)\.enumerate\(\)", ".iter().rev().enumerate()"),
    (r"to_le_bytes", "to_be_bytes"), (r"LittleEndian", "BigEndian"),
    # third operator set: swallowed errors, loop control, range bounds, emptiness tests
    (r"\?;", ".ok();"), (r"\bcontinue\b", "break"), (r"\bbreak\b", "continue"), (r"\.\.=", ".."), (r"(?<![.\w])\.\.(?![.=])", "..="),
    (r"\.rev\(\)", ""), (r" % ", " / "), (r"\.is_empty\(\)", ".len() == 1"), (r"\.is_some\(\)", ".is_none()"), (r"\.is_none\(\)", ".is_some()"),
    (r"\.saturating_sub\(1\)", ""), (r"\bwrite_all\(", "write("), (r"\bread_exact\(", "read("), (r"\.truncate\(true\)", ".truncate(false)"),
    (r"\.unwrap_or\(0\)", ".unwrap_or(1)"), (r"\bheight\b(?! [:=])", "(height + 1)"), (r"\bSeekFrom::Start\(", "SeekFrom::Current(0 * "),
]


def sh(cmd, **kw):
    return subprocess.run(cmd, stdout=subprocess.PIPE, stderr=subprocess.STDOUT, **kw)


def candidates(repo, files):
    out = []
    for f in files:
        lines = open(os.path.join(repo, f)).read().split("\n")
        end = next((i for i, l in enumerate(lines) if l.strip().startswith("#[cfg(test)]") and i > 20), len(lines))
        for i, l in enumerate(lines[:end]):
            st = l.strip()
            if not st or st.startswith("//") or st.startswith("#[") or st.startswith("use ") or ".author(" in st or ".version(" in st or "info!(" in st or "debug!(" in st or "trace!(" in st or "warn!(" in st or ".help(" in st or ".about(" in st:
                continue
            code = l.split("//")[0]
            # skip generics / arrows / closures where '<' '>' are not comparisons
            for pat, rep in OPS:
                for m in re.finditer(pat, code):
                    if pat in (r"(?<![<=-])<(?![<=])", r"(?<![->=])>(?![>=])") and (re.search(r"(Vec|Option|Result|HashMap|Box|impl|fn |::<|->|=>|<[A-Z&\[u(])", code)):
                        continue
                    if rep == m.group(0):
                        continue
                    new = code[:m.start()] + rep + code[m.end():] + l[len(code):]
                    out.append((f, i, l, new, "%s -> %s" % (m.group(0), rep)))
            # dropped statements
            if re.search(r"^(self\.)?[a-z_\.]+\.(insert|remove|push|clear|extend|truncate|retain|sort|sort_unstable|dedup)\(.*\);$", st) or re.search(r"^(self\.)?[a-z_\.]+ (\+|-)= .*;$", st):
                out.append((f, i, l, "", "statement dropped"))
            if re.search(r"\.(flush|close)\(\)\??;?$", st) or st.startswith("unspents.remove(") or st.startswith("self.cur_height = ") or st.startswith("reader.seek("):
                out.append((f, i, l, "", "statement dropped"))
    return out


def main():
    a = sys.argv[1:]
    scratch, outp = a[0], a[1]
    mx = int(a[a.index("--max") + 1]) if "--max" in a else 60
    scale = a[a.index("--scale") + 1] if "--scale" in a else "0.5"
    files = a[a.index("--files") + 1].split(",") if "--files" in a else list(FILES)
    seed = int(a[a.index("--seed") + 1]) if "--seed" in a else 1
    repo = os.path.join(scratch, "repo")
    if not os.path.isdir(repo):
        sh(["git", "-C", "/repo", "worktree", "add", "-f", "--detach", repo, "HEAD"])
    env = dict(os.environ, CARGO_NET_OFFLINE="true", VP_REPO=repo, VP_CACHE=os.path.join(scratch, "cache"), VP_REPLAY_DIR=os.path.join(scratch, "replays"))
    cands = candidates(repo, files)
    random.Random(seed).shuffle(cands)
    done = 0
    with open(outp, "a") as log:
        for f, i, old, new, desc in cands:
            if done >= mx:
                break
            sh(["git", "-C", repo, "checkout", "--", "."])
            p = os.path.join(repo, f)
            lines = open(p).read().split("\n")
            if lines[i] != old:
                continue
            lines[i] = new
            open(p, "w").write("\n".join(lines))
            try:
                t = sh(["timeout", "-k", "5", "300", "cargo", "test", "--offline", "--manifest-path", os.path.join(repo, "Cargo.toml"), "--target-dir", os.path.join(scratch, "cache", "repo-target")], env=env)
                out = t.stdout.decode("utf-8", "replace")
            except Exception as e:  # noqa
                out = "cargo test failed: %s" % e
            rec = {"file": f, "line": i + 1, "old": old.strip(), "new": new.strip(), "op": desc}
            if "test result: ok. 41 passed" not in out:
                rec["status"] = "invalid (does not build or fails the 41 tests)"
                log.write(json.dumps(rec) + "\n")
                log.flush()
                continue
            done += 1
            rec["status"] = "survived"
            rec["checks"] = {}
            for pid in FILES[f]:
                t0 = time.time()
                c = sh([os.path.join(ROOT, "vp"), "check", pid, "--tier", "quick", "--scale", scale], env=env, cwd=ROOT)
                txt = c.stdout.decode("utf-8", "replace")
                rec["checks"][pid] = {"exit": c.returncode, "s": round(time.time() - t0)}
                if c.returncode == 1:
                    rec["status"] = "killed by " + pid
                    r = re.search(r"reason: (.*)", txt)
                    rec["reason"] = r.group(1)[:300] if r else ""
                    break
                if c.returncode == 2:
                    rec["status"] = "inconclusive (" + pid + " exit 2)"
            log.write(json.dumps(rec) + "\n")
            log.flush()
    sh(["git", "-C", repo, "checkout", "--", "."])


if __name__ == "__main__":
    main()
