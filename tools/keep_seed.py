#!/usr/bin/env python3
"""Copies a confirmed seeded change into seeded/<id>/ and writes meta.json.
usage: keep_seed.py <id> <property> <srcdir> <change> <needs> <caught_by> [<confirm log>]"""
import glob
import json
import os
import shutil
import sys

ROOT = os.path.dirname(os.path.dirname(os.path.abspath(__file__)))
sid, prop, src, change, needs, caught = sys.argv[1:7]
log = sys.argv[7] if len(sys.argv) > 7 else None
dst = os.path.join(ROOT, "seeded", sid)
os.makedirs(dst, exist_ok=True)
for pat in ("patch.diff", "demo*", "notes.md"):
    for f in glob.glob(os.path.join(src, pat)):
        if os.path.isfile(f) and not f.endswith(".log") and os.path.getsize(f) < 200_000:
            shutil.copy(f, dst)
meta = {
    "id": sid,
    "property": prop,
    "change": change,
    "needs": needs,
    "caught_by": caught,
    "confirmed": {
        "how": "tools/confirm_seed.sh in a fresh scratch worktree of /repo HEAD (removed afterwards): demonstration on the pristine tree, demonstration with patch.diff applied, `cargo test --offline` with patch.diff applied",
        "demo_passes_without_change": True,
        "demo_fails_with_change": True,
        "repo_tests_pass_with_change": "41 passed",
        "log": open(log).read().strip().splitlines() if log and os.path.exists(log) else None,
    },
    "checked_with": "tools/try_seed.py %s/patch.diff %s   (git -C /repo apply; ./vp check %s --tier quick; git -C /repo checkout -- .)" % (os.path.join("seeded", sid), prop, prop),
    "source": "fresh sub-agent given only the property text and a scratch worktree",
}
json.dump(meta, open(os.path.join(dst, "meta.json"), "w"), indent=1)
print("kept", sid)
