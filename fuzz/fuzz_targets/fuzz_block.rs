#![no_main]
// structure-aware: bytes -> BlockSpec (incl. segwit, AuxPoW, versions around the threshold) ->
// model serialiser -> read_block -> field-by-field comparison incl. hashes (C01, C12)
include!("common.rs");
use arbitrary::Unstructured;
use libfuzzer_sys::fuzz_target;
use vpmodel::spec::{AuxPowSpec, BlockSpec, InSpec, OutSpec, Src, TxSpec};

fn bytes_of(u: &mut Unstructured, max: usize) -> arbitrary::Result<Vec<u8>> {
    let class: u8 = u.arbitrary()?;
    let n = match class % 16 {
        0 => 0,
        1 => 0xfc,
        2 => 0xfd,
        3 => 0xfe,
        _ => u.int_in_range(0..=max)?,
    };
    Ok(u.bytes(n.min(u.len()))?.to_vec())
}

fn tx_of(u: &mut Unstructured) -> arbitrary::Result<TxSpec> {
    let nin = u.int_in_range(1..=3)?;
    let nout = u.int_in_range(1..=3)?;
    let mut inputs = Vec::new();
    for _ in 0..nin {
        let nw = u.int_in_range(0..=3)?;
        let mut witness = Vec::new();
        for _ in 0..nw {
            witness.push(bytes_of(u, 80)?);
        }
        inputs.push(InSpec { src: if u.arbitrary()? { Src::Known(u.arbitrary()?) } else { Src::Unknown(u.arbitrary()?, u.arbitrary()?) }, script_sig: bytes_of(u, 120)?, sequence: u.arbitrary()?, witness });
    }
    let mut outputs = Vec::new();
    for _ in 0..nout {
        outputs.push(OutSpec { value: u.arbitrary()?, script: bytes_of(u, 120)? });
    }
    Ok(TxSpec { version: u.arbitrary()?, locktime: u.arbitrary()?, inputs, outputs, segwit: u.arbitrary()?, dup_of: None })
}

fn case_of(data: &[u8]) -> arbitrary::Result<BlockCase> {
    let mut u = Unstructured::new(data);
    let prop = std::env::var("VP_FUZZ_PROPERTY").unwrap_or_else(|_| "C01".to_string());
    let sel: u8 = u.arbitrary()?;
    let coin = if prop == "C12" { [Coin::Namecoin, Coin::Dogecoin, Coin::Namecoin, Coin::Litecoin][(sel & 3) as usize] } else { ALL_COINS[(sel & 7) as usize] };
    let vclass: u8 = u.arbitrary()?;
    let version = match (coin.auxpow_threshold(), vclass % 6) {
        (Some(t), 0) => t - 1,
        (Some(t), 1) => t,
        (Some(t), 2) => t + 1,
        (Some(t), 3) => t.wrapping_add(u.arbitrary::<u32>()? % 0x7000_0000),
        _ => u.arbitrary()?,
    };
    let auxpow = if u.arbitrary()? { Some(AuxPowSpec { coinbase: tx_of(&mut u)?, seed: u.arbitrary()?, cb_branch_len: u.int_in_range(0..=40)?, cb_mask: u.arbitrary()?, chain_branch_len: u.int_in_range(0..=40)?, chain_mask: u.arbitrary()? }) } else { None };
    let coinbase = tx_of(&mut u)?;
    let ntx = u.int_in_range(0..=4)?;
    let mut txs = Vec::new();
    for _ in 0..ntx {
        txs.push(tx_of(&mut u)?);
    }
    let b = BlockSpec { version, time: u.arbitrary()?, bits: u.arbitrary()?, nonce: u.arbitrary()?, auxpow, coinbase, txs, dup_coinbase: None };
    Ok(BlockCase { chain: ChainSpec { coin, base: 0, real_genesis: false, blocks: vec![b] } })
}

fuzz_target!(|data: &[u8]| {
    if let Ok(c) = case_of(data) {
        let v = check_block_case(&c);
        report("fuzz_block", "C01", &c, v);
    }
});
