#![no_main]
// bytes -> (coin selector, script); oracle = reference classifiers (C05, C06, C16 payload, C14 totality)
include!("common.rs");
use libfuzzer_sys::fuzz_target;

fuzz_target!(|data: &[u8]| {
    if data.is_empty() {
        return;
    }
    let prop = std::env::var("VP_FUZZ_PROPERTY").unwrap_or_else(|_| "C05".to_string());
    let coin = match prop.as_str() {
        "C05" => [Coin::Bitcoin, Coin::Testnet3][(data[0] & 1) as usize],
        "C06" => FORK_COINS[(data[0] % 6) as usize],
        _ => ALL_COINS[(data[0] & 7) as usize],
    };
    let b = ScriptBatch { coin, scripts: vec![data[1..].to_vec()] };
    let v = check_script_batch(&b, if prop == "C14" { "C14" } else { "ALL" });
    report("fuzz_scripts", "C05", &b, v);
});
