#![no_main]
// bytes -> (key, buffer capacity, seek/read op list) on XorReader<seek_bufread::BufReader<Cursor>>
// vs a plain array model (C11)
include!("common.rs");
use arbitrary::Unstructured;
use libfuzzer_sys::fuzz_target;

fn case_of(data: &[u8]) -> arbitrary::Result<XorCase> {
    let mut u = Unstructured::new(data);
    let kl = match u.arbitrary::<u8>()? % 8 {
        0 => 0,
        1 => 1,
        2 | 3 | 4 => 8,
        _ => u.int_in_range(1..=64)?,
    };
    let key = u.bytes(kl.min(u.len()))?.to_vec();
    let bufcap = match u.arbitrary::<u8>()? % 4 {
        0 => 32768u16,
        1 => u.int_in_range(1..=64)?,
        _ => u.arbitrary::<u16>()?.max(1),
    };
    let len: u64 = match u.arbitrary::<u8>()? % 4 { 0 => (1u64 << 32) + 100_000, _ => u.int_in_range(1000u64..=100_000)? };
    let mut ops = Vec::new();
    while !u.is_empty() && ops.len() < 64 {
        ops.push(match u.arbitrary::<u8>()? % 5 {
            0 => Op::SeekStart(u.arbitrary()?),
            4 => Op::SeekNear(u.arbitrary()?, u.arbitrary()?),
            1 => Op::ReadExact(u.arbitrary::<u16>()? % 5000),
            2 => Op::ReadU32,
            _ => Op::Read(u.arbitrary::<u16>()? % 40000),
        });
    }
    Ok(XorCase { len, key, bufcap, ops })
}

fuzz_target!(|data: &[u8]| {
    if let Ok(c) = case_of(data) {
        let v = check_xor(&c);
        report("fuzz_xorseek", "C11", &c, v);
    }
});
