// shared by the three fuzz targets: shim + E2 oracles + violation reporting
#[macro_use]
extern crate log;

include!(concat!(env!("OUT_DIR"), "/shim.rs"));
include!("../../harness/src/bin/e2/checks.rs");

/// On a violation: write an E2 replay file (the decoded case) and abort so that libFuzzer keeps
/// the input. Known-finding handling is not needed here (no open finding concerns these targets).
fn report<C: serde::Serialize>(part: &str, default_prop: &str, case: &C, v: Verdict) {
    if let Verdict::Fail(m) = v {
        let prop = std::env::var("VP_FUZZ_PROPERTY").unwrap_or_else(|_| default_prop.to_string());
        let dir = std::path::PathBuf::from(std::env::var("VP_REPLAY_DIR").unwrap_or_else(|_| "/verif/replays".into())).join(&prop);
        let _ = std::fs::create_dir_all(&dir);
        let doc = serde_json::json!({"property": prop, "engine": "E2", "part": part, "seed": 0, "message": m, "case": case});
        let text = serde_json::to_string_pretty(&doc).unwrap_or_default();
        let path = dir.join(format!("{}-{:016x}.json", part, fnv64(text.as_bytes())));
        let _ = std::fs::write(&path, text);
        eprintln!("VIOLATION property={} replay={}", prop, path.display());
        eprintln!("  reason: {}", m);
        std::process::abort();
    }
}
