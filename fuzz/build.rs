// Generates the E2/E3 shim: the repository's leaf modules compiled into the harness by path.
// VP_REPO_SRC (default /repo/src) selects the source tree, so the same harness can be pointed at a
// scratch worktree when a seeded change is tested.
use std::io::Write;
fn main() {
    let src = std::env::var("VP_REPO_SRC").unwrap_or_else(|_| "/repo/src".to_string());
    println!("cargo:rerun-if-env-changed=VP_REPO_SRC");
    println!("cargo:rerun-if-changed=build.rs");
    let out = std::path::PathBuf::from(std::env::var("OUT_DIR").unwrap()).join("shim.rs");
    let mut f = std::fs::File::create(out).unwrap();
    write!(
        f,
        r#"#[path = "{src}/common/mod.rs"]
pub mod common;
pub mod blockchain {{
    pub mod parser {{
        #[path = "{src}/blockchain/parser/reader.rs"]
        pub mod reader;
        #[path = "{src}/blockchain/parser/types.rs"]
        pub mod types;
    }}
    #[path = "{src}/blockchain/proto/mod.rs"]
    pub mod proto;
}}
"#,
        src = src
    )
    .unwrap();
}
